/*
 * Standalone parse runner: one input, one process.  Used
 *   - uninstrumented under valgrind memcheck (variant "plain"): uninitialised reads that ASan cannot see,
 *   - under ASan/UBSan (variant "asanexe") to reproduce libFuzzer artifacts one per process,
 *   - as the body of the libFuzzer target (fuzz_parse.c includes this file with VP_LIBFUZZER defined).
 *
 * The first 8 bytes of the input select the parse options and the error-callback decision stream, the rest is
 * the document.  The runner checks the parts of the parser contract that can be judged inside one process and
 * reports a breach as a line "VP-VIOLATION <key> <detail>" on stderr followed by abort():
 *   every callback carries line >= 1 and readable text; the result is CIF_OK, the first non-zero callback result,
 *   or a defined code; no failure without a reported error (valid options); with the default handler the result
 *   is the first code the all-accepting run reported; afterwards the CIF can be walked, written, modified, destroyed.
 */
#include <stdio.h>
#include <stdlib.h>
#include <stdint.h>
#include <string.h>
#include <unicode/ustring.h>
#include "cif.h"

#define MAX_ERRS 64

struct run_state {
    int nerr;
    int codes[MAX_ERRS];
    int reject_at;      /* 0 = never */
    int reject_code;
    int rejected;       /* the callback has returned non-zero already */
    int calls_after_reject;
    unsigned long sink;
};

static void violation(const char *key, const char *detail, long a, long b) {
    fprintf(stderr, "VP-VIOLATION %s %s (%ld, %ld)\n", key, detail, a, b);
    fflush(stderr);
    abort();
}

static int on_error(int code, size_t line, size_t column, const UChar *text, size_t length, void *data) {
    struct run_state *st = (struct run_state *) data;
    size_t i;

    (void) column;
    if (st->rejected) st->calls_after_reject += 1;
    if (line < 1) violation("callback:error:line-zero", "error callback with line 0 for code", code, (long) line);
    if (text != NULL) {
        for (i = 0; i < length; i += 1) st->sink += text[i];   /* must be readable */
    }
    if (st->nerr < MAX_ERRS) st->codes[st->nerr] = code;
    st->nerr += 1;
    if ((st->reject_at > 0) && (st->nerr >= st->reject_at)) {
        st->rejected = 1;
        return st->reject_code;
    }
    return 0;
}

static int is_defined_code(int rc) {
    static const int codes[] = { 0, 1, 2, 3, 4, 5, 6, 7, 8, 9, 10, 11, 12, 13, 21, 22, 23, 31, 32, 33, 34, 35, 36, 37, 41,
            42, 43, 44, 52, 53, 62, 72, 73, 74, 102, 103, 104, 105, 106, 107, 108, 109, 110, 113, 122, 123, 124, 126, 132,
            133, 134, 135, 136, 137, 138, 139, 140, 141 };
    size_t i;
    for (i = 0; i < sizeof(codes) / sizeof(codes[0]); i += 1) if (codes[i] == rc) return 1;
    return 0;
}

/* handler that reads what it is given */
static unsigned long walk_sink;
static int h_cif(cif_tp *cif, void *ctx) { (void) cif; (void) ctx; return CIF_TRAVERSE_CONTINUE; }
static int h_cont(cif_container_tp *c, void *ctx) {
    UChar *code = NULL;
    (void) ctx;
    if (cif_container_get_code(c, &code) == CIF_OK && code) { walk_sink += (unsigned long) u_strlen(code); free(code); }
    return CIF_TRAVERSE_CONTINUE;
}
static int h_loop(cif_loop_tp *l, void *ctx) {
    UChar **names = NULL;
    (void) ctx;
    if (cif_loop_get_names(l, &names) == CIF_OK && names) {
        UChar **n;
        for (n = names; *n; n += 1) { walk_sink += (unsigned long) u_strlen(*n); free(*n); }
        free(names);
    }
    return CIF_TRAVERSE_CONTINUE;
}
static int h_pkt(cif_packet_tp *p, void *ctx) { (void) p; (void) ctx; return CIF_TRAVERSE_CONTINUE; }
static int h_item(UChar *name, cif_value_tp *value, void *ctx) {
    (void) ctx;
    if (name) walk_sink += (unsigned long) u_strlen(name);
    if (value) {
        cif_kind_tp k = cif_value_kind(value);
        if (k == CIF_CHAR_KIND || k == CIF_NUMB_KIND) {
            UChar *t = NULL;
            double d;
            if (cif_value_get_text(value, &t) == CIF_OK && t) { walk_sink += (unsigned long) u_strlen(t); free(t); }
            if (k == CIF_NUMB_KIND && cif_value_get_number(value, &d) == CIF_OK) walk_sink += (d > 0);
        } else if (k == CIF_LIST_KIND || k == CIF_TABLE_KIND) {
            size_t n = 0;
            if (cif_value_get_element_count(value, &n) == CIF_OK) walk_sink += n;
        }
    }
    return CIF_TRAVERSE_CONTINUE;
}

static void exercise(cif_tp *cif, int deep) {
    UChar code[] = { 'v', 'p', '_', 'f', 'r', 'e', 's', 'h', '_', 'x', 0 };
    int attempt;
    static const UChar name[] = { '_', 'f', 'r', 'e', 's', 'h', 0 };
    cif_handler_tp handler = { h_cif, h_cif, h_cont, h_cont, h_cont, h_cont, h_loop, h_loop, h_pkt, h_pkt, h_item };
    cif_block_tp *blk = NULL;
    cif_value_tp *v = NULL;
    FILE *out;
    int rc;

    rc = cif_walk(cif, &handler, NULL);
    if (rc != CIF_OK && rc != CIF_EMPTY_LOOP) violation("parse:unusable:walk", "cif_walk after the parse returned", rc, 0);
    if (!deep) {
        out = fopen("/dev/null", "w");
        if (out) {
            rc = cif_write(out, NULL, cif);
            fclose(out);
            if (!is_defined_code(rc)) violation("parse:unusable:write", "cif_write returned an undefined code", rc, 0);
        }
    }
    /* (a coverage-guided input can come to hold a block of this very code: that is the input's right) */
    for (attempt = 0; attempt < 26; attempt += 1) {
        code[9] = (UChar) ('x' - attempt);
        rc = cif_create_block(cif, code, &blk);
        if (rc != CIF_DUP_BLOCKCODE) break;
    }
    if (rc != CIF_OK) violation("parse:unusable:modify", "cif_create_block after the parse returned", rc, 0);
    if (cif_value_create(CIF_UNK_KIND, &v) != CIF_OK) return;
    if (cif_value_autoinit_numb(v, 1.25, 0.03, 19) != CIF_OK) violation("parse:unusable:modify", "autoinit_numb", 0, 0);
    rc = cif_container_set_value(blk, name, v);
    if (rc != CIF_OK) violation("parse:unusable:modify", "cif_container_set_value after the parse returned", rc, 0);
    rc = cif_container_get_value(blk, name, &v);
    if (rc != CIF_OK) violation("parse:unusable:modify", "cif_container_get_value after the parse returned", rc, 0);
    cif_value_free(v);
    rc = cif_container_remove_item(blk, name);
    if (rc != CIF_OK) violation("parse:unusable:modify", "cif_container_remove_item after the parse returned", rc, 0);
    rc = cif_container_destroy(blk);
    if (rc != CIF_OK) violation("parse:unusable:modify", "cif_container_destroy after the parse returned", rc, 0);
}

static int parse_once(const uint8_t *doc, size_t len, const uint8_t *sel, struct run_state *st, int with_callback,
        int with_target, int deep, int *options_valid) {
    static const char *encodings[] = { NULL, NULL, NULL, "ISO-8859-1", "UTF-16LE", "UTF-8", "US-ASCII", "UTF-32BE" };
    static const int prefer[] = { 0, 0, -1, 1, 20, 99 };
    static const int depth[] = { 1, 1, -1, 0, 2 };
    static const int tri[] = { 0, 0, -1, 1 };
    struct cif_parse_opts_s *opts = NULL;
    cif_tp *cif = NULL;
    FILE *in;
    int rc;

    if (cif_parse_options_create(&opts) != CIF_OK) return -1;
    opts->prefer_cif2 = prefer[sel[0] % 6];
    opts->max_frame_depth = depth[sel[1] % 5];
    opts->line_folding_modifier = tri[sel[2] % 4];
    opts->text_prefixing_modifier = tri[(sel[2] >> 2) % 4];
    opts->default_encoding_name = encodings[sel[3] % 8];
    opts->force_default_encoding = ((sel[3] >> 3) % 4 == 0);
    opts->extra_ws_chars = (sel[4] & 1) ? "\v" : ((sel[4] & 4) ? "\xa0\xb5\xff" : NULL);
    opts->extra_eol_chars = (sel[4] & 2) ? "\f" : ((sel[4] & 8) ? "\xa1\xc9\xfe" : NULL);
    opts->user_data = st;
    opts->error_callback = with_callback ? on_error : NULL;
    *options_valid = 1;

    in = fmemopen((void *) (len ? doc : (const uint8_t *) ""), len ? len : 1, "r");
    if (!in) { free(opts); return -1; }
    if (!len) (void) fgetc(in);
    rc = cif_parse(in, opts, with_target ? &cif : NULL);
    fclose(in);
    free(opts);
    if (cif != NULL) {
        exercise(cif, deep);
        if (cif_destroy(cif) != CIF_OK) violation("parse:unusable:destroy", "cif_destroy failed", 0, 0);
    }
    return rc;
}

int vp_run(const uint8_t *data, size_t size) {
    uint8_t sel[8] = { 0 };
    const uint8_t *doc = data;
    size_t len = size;
    struct run_state st, st2, st3;
    int rc0, rc1, rc2, valid, with_target, deep = 0;
    size_t i, d = 0, best = 0;

    if (size >= 8) { memcpy(sel, data, 8); doc = data + 8; len = size - 8; }
    for (i = 0; i < len; i += 1) {
        if (doc[i] == '[' || doc[i] == '{') { d += 1; if (d > best) best = d; }
        else if ((doc[i] == ']' || doc[i] == '}') && d) d -= 1;
    }
    deep = (best > 200);
    with_target = (sel[5] % 4 == 0);   /* storing parses cost a schema creation each: one input in four */

    /* R0: every error accepted */
    memset(&st, 0, sizeof(st));
    rc0 = parse_once(doc, len, sel, &st, 1, with_target, deep, &valid);
    if (rc0 == -1) return 0;
    if (!is_defined_code(rc0)) violation("parse:rc:undefined", "cif_parse returned", rc0, st.nerr);
    if (rc0 != CIF_OK && st.nerr == 0 && valid) violation("parse:failed-silently", "cif_parse failed without reporting an error; rc", rc0, 0);

    /* R1: default handler */
    memset(&st2, 0, sizeof(st2));
    rc1 = parse_once(doc, len, sel, &st2, 0, with_target, deep, &valid);
    if (rc1 != ((st.nerr > 0) ? st.codes[0] : rc0)) {
        violation("parse:default-handler", "default handler result differs from the first reported code; rc, first", rc1,
                (st.nerr > 0) ? st.codes[0] : rc0);
    }

    /* R2: reject the n-th error */
    if (st.nerr > 0) {
        memset(&st3, 0, sizeof(st3));
        st3.reject_at = 1 + (sel[6] % ((st.nerr < MAX_ERRS) ? st.nerr : MAX_ERRS));
        st3.reject_code = 7777;
        rc2 = parse_once(doc, len, sel, &st3, 1, with_target, deep, &valid);
        if (rc2 != 7777) violation("parse:reject:code-not-forwarded", "rejecting an error with 7777 gave", rc2, st3.reject_at);
        if (st3.calls_after_reject) violation("parse:reject:callback-after-reject", "the callback was invoked again after it rejected an error; count", st3.calls_after_reject, 0);
        for (i = 0; (int) i < st3.nerr && i < MAX_ERRS; i += 1) {
            if (st3.codes[i] != st.codes[i]) violation("parse:reject:errors-differ", "error sequence differs between two parses of the same bytes at index", (long) i, st3.codes[i]);
        }
    }
    return 0;
}

#ifndef VP_LIBFUZZER
int main(int argc, char **argv) {
    int a;
    for (a = 1; a < argc; a += 1) {
        FILE *f = fopen(argv[a], "rb");
        uint8_t *buf;
        long n;
        if (!f) { perror(argv[a]); return 2; }
        fseek(f, 0, SEEK_END);
        n = ftell(f);
        fseek(f, 0, SEEK_SET);
        buf = (uint8_t *) malloc((size_t) n + 1);
        if (!buf) return 2;
        if (fread(buf, 1, (size_t) n, f) != (size_t) n) { fclose(f); return 2; }
        fclose(f);
        vp_run(buf, (size_t) n);
        free(buf);
    }
    return 0;
}
#endif
