/*
 * vphelp.c - monitor / fault-injection helpers linked into the instrumented copy of libcif that the
 * /verif checks drive through ctypes.  Nothing in here is part of cif_api.
 *
 *  - allocation ledger + countdown fault injection for the library's own allocations
 *    (the library objects are linked with -Wl,--wrap=malloc,... so that every request passes through here)
 *  - the same for SQLite's allocations, through sqlite3_config(SQLITE_CONFIG_MALLOC)
 *  - handle counters for ICU converters / UFILEs and SQLite connections / statements
 *  - process-global state probes (numeric locale, floating-point rounding mode)
 *  - transaction-state probe for a managed CIF
 *  - memory streams and failing streams for cif_parse / cif_write
 *  - a "touch" routine that reads a UChar range so that the sanitizer judges readability
 */
#define _GNU_SOURCE
#include <stdio.h>
#include <stdlib.h>
#include <string.h>
#include <errno.h>
#include <fenv.h>
#include <locale.h>
#include <dlfcn.h>
#include <stdint.h>
#include <sys/types.h>

#include <sqlite3.h>
#include <unicode/ucnv.h>
#include <unicode/ustdio.h>
#include <unicode/ustring.h>

#include "cif.h"
#include "internal/ciftypes.h"

#define WRAPNAME2(x) __wrap_##x
#define WRAPNAME(x) WRAPNAME2(x)
#define REALNAME2(x) __real_##x
#define REALNAME(x) REALNAME2(x)

/* ------------------------------------------------------------------------------------------------
 * allocation ledger (library layer)
 * ---------------------------------------------------------------------------------------------- */

void *__real_malloc(size_t);
void *__real_calloc(size_t, size_t);
void *__real_realloc(void *, size_t);
void __real_free(void *);
char *__real_strdup(const char *);

typedef struct {
    void *ptr;          /* NULL = empty, (void*)1 = tombstone */
    size_t size;
    void *site;
    unsigned long serial;
} led_ent;

#define LED_TOMB ((void *) 1)
static led_ent *led_tab = NULL;
static size_t led_cap = 0;      /* power of two */
static size_t led_used = 0;     /* live + tombstones */
static size_t led_live = 0;
static unsigned long led_serial = 0;
static int led_enabled = 1;

/* fault injection, library layer */
static long lib_count = 0;       /* allocation requests seen since last reset */
static long lib_fail_at = 0;     /* fail the request with this ordinal (1-based); 0 = never */
static long lib_failed = 0;      /* number of injected failures delivered */
static void *lib_fail_site = NULL;
static long unknown_frees = 0;   /* free()/realloc() of a pointer the ledger does not know */
static void *unknown_free_site = NULL;

static size_t led_hash(void *p) {
    uintptr_t x = (uintptr_t) p;
    x ^= x >> 33; x *= 0xff51afd7ed558ccdULL; x ^= x >> 33;
    return (size_t) x;
}

static void led_grow(void) {
    size_t ncap = led_cap ? led_cap * 2 : 4096;
    led_ent *ntab = (led_ent *) __real_calloc(ncap, sizeof(led_ent));
    size_t i;
    if (!ntab) { fprintf(stderr, "vphelp: ledger out of memory\n"); abort(); }
    for (i = 0; i < led_cap; i++) {
        if (led_tab[i].ptr && led_tab[i].ptr != LED_TOMB) {
            size_t h = led_hash(led_tab[i].ptr) & (ncap - 1);
            while (ntab[h].ptr) h = (h + 1) & (ncap - 1);
            ntab[h] = led_tab[i];
        }
    }
    if (led_tab) __real_free(led_tab);
    led_tab = ntab;
    led_cap = ncap;
    led_used = led_live;
}

static void led_add(void *p, size_t size, void *site) {
    size_t h;
    if (!p || !led_enabled) return;
    if ((led_used + 1) * 2 > led_cap) led_grow();
    h = led_hash(p) & (led_cap - 1);
    while (led_tab[h].ptr && led_tab[h].ptr != LED_TOMB) h = (h + 1) & (led_cap - 1);
    if (!led_tab[h].ptr) led_used++;
    led_tab[h].ptr = p;
    led_tab[h].size = size;
    led_tab[h].site = site;
    led_tab[h].serial = ++led_serial;
    led_live++;
}

static int led_del(void *p) {
    size_t h;
    if (!p || !led_cap) return 0;
    h = led_hash(p) & (led_cap - 1);
    while (led_tab[h].ptr) {
        if (led_tab[h].ptr == p) {
            led_tab[h].ptr = LED_TOMB;
            led_live--;
            return 1;
        }
        h = (h + 1) & (led_cap - 1);
    }
    return 0;
}

static int lib_should_fail(void *site) {
    lib_count++;
    if (lib_fail_at && lib_count == lib_fail_at) {
        lib_failed++;
        lib_fail_site = site;
        errno = ENOMEM;
        return 1;
    }
    return 0;
}

void *__wrap_malloc(size_t n) {
    void *site = __builtin_return_address(0);
    void *p;
    if (lib_should_fail(site)) return NULL;
    p = __real_malloc(n);
    led_add(p, n, site);
    return p;
}

void *__wrap_calloc(size_t a, size_t b) {
    void *site = __builtin_return_address(0);
    void *p;
    if (lib_should_fail(site)) return NULL;
    p = __real_calloc(a, b);
    led_add(p, a * b, site);
    return p;
}

void *__wrap_realloc(void *old, size_t n) {
    void *site = __builtin_return_address(0);
    void *p;
    if (lib_should_fail(site)) return NULL;
    if (old && led_enabled && !led_del(old)) { unknown_frees++; unknown_free_site = site; }
    p = __real_realloc(old, n);
    if (p) led_add(p, n, site);
    else if (old && n) led_add(old, 0, site); /* realloc failed for real: old block still live */
    return p;
}

char *__wrap_strdup(const char *s) {
    void *site = __builtin_return_address(0);
    char *p;
    if (lib_should_fail(site)) return NULL;
    p = __real_strdup(s);
    led_add(p, p ? strlen(p) + 1 : 0, site);
    return p;
}

void __wrap_free(void *p) {
    if (p && led_enabled && !led_del(p)) { unknown_frees++; unknown_free_site = __builtin_return_address(0); }
    __real_free(p);
}

/* for the Python side: release something the library handed to the caller */
void vp_free(void *p) { __wrap_free(p); }
/* allocate something the library will take ownership of (cif_value_init_char, cif_value_parse_numb) */
void *vp_malloc(size_t n) { void *p = __real_malloc(n); led_add(p, n, __builtin_return_address(0)); return p; }

size_t vp_ledger_live(void) { return led_live; }
unsigned long vp_ledger_serial(void) { return led_serial; }
long vp_unknown_frees(void) { return unknown_frees; }

static uintptr_t site_offset(void *site) {
    Dl_info info;
    if (site && dladdr(site, &info) && info.dli_fbase) return (uintptr_t) site - (uintptr_t) info.dli_fbase;
    return (uintptr_t) site;
}

uintptr_t vp_unknown_free_site(void) { return site_offset(unknown_free_site); }

/*
 * Writes up to max entries "serial size siteoffset\n" for live blocks with serial > since into buf.
 * Returns the number of live blocks with serial > since.
 */
size_t vp_ledger_report(unsigned long since, char *buf, size_t buflen, size_t max) {
    size_t i, n = 0, pos = 0;
    if (buflen) buf[0] = 0;
    for (i = 0; i < led_cap; i++) {
        if (led_tab[i].ptr && led_tab[i].ptr != LED_TOMB && led_tab[i].serial > since) {
            if (n < max && pos + 80 < buflen) {
                pos += (size_t) snprintf(buf + pos, buflen - pos, "%lu %zu %lx\n", led_tab[i].serial,
                        led_tab[i].size, (unsigned long) site_offset(led_tab[i].site));
            }
            n++;
        }
    }
    return n;
}

/* forget (without freeing) all live blocks with serial > since: used after a reported leak so that it is not
 * reported again by every later session */
void vp_ledger_forget(unsigned long since) {
    size_t i;
    for (i = 0; i < led_cap; i++) {
        if (led_tab[i].ptr && led_tab[i].ptr != LED_TOMB && led_tab[i].serial > since) {
            led_tab[i].ptr = LED_TOMB;
            led_live--;
        }
    }
}

void vp_lib_fault_arm(long k) { lib_count = 0; lib_fail_at = k; lib_failed = 0; lib_fail_site = NULL; }
long vp_lib_fault_count(void) { return lib_count; }
long vp_lib_fault_delivered(void) { return lib_failed; }
uintptr_t vp_lib_fault_site(void) { return site_offset(lib_fail_site); }

/* ------------------------------------------------------------------------------------------------
 * SQLite allocation layer
 * ---------------------------------------------------------------------------------------------- */

static sqlite3_mem_methods sq_default;
static int sq_installed = 0;
static long sq_count = 0, sq_fail_at = 0, sq_failed = 0;
static long sq_live_blocks = 0;

static int sq_should_fail(void) {
    sq_count++;
    if (sq_fail_at && sq_count == sq_fail_at) { sq_failed++; return 1; }
    return 0;
}

static void *sq_malloc(int n) {
    void *p;
    if (sq_should_fail()) return NULL;
    p = sq_default.xMalloc(n);
    if (p) sq_live_blocks++;
    return p;
}
static void sq_free(void *p) { if (p) sq_live_blocks--; sq_default.xFree(p); }
static void *sq_realloc(void *p, int n) {
    void *q;
    if (sq_should_fail()) return NULL;
    q = sq_default.xRealloc(p, n);
    return q;
}
static int sq_size(void *p) { return sq_default.xSize(p); }
static int sq_roundup(int n) { return sq_default.xRoundup(n); }
static int sq_init(void *a) { return sq_default.xInit(sq_default.pAppData); (void) a; }
static void sq_shutdown(void *a) { sq_default.xShutdown(sq_default.pAppData); (void) a; }

/* must be called before the first use of SQLite in the process */
int vp_sqlite_hook_install(void) {
    static sqlite3_mem_methods mine;
    int rc;
    if (sq_installed) return 0;
    rc = sqlite3_config(SQLITE_CONFIG_GETMALLOC, &sq_default);
    if (rc != SQLITE_OK) return rc;
    mine.xMalloc = sq_malloc; mine.xFree = sq_free; mine.xRealloc = sq_realloc; mine.xSize = sq_size;
    mine.xRoundup = sq_roundup; mine.xInit = sq_init; mine.xShutdown = sq_shutdown; mine.pAppData = NULL;
    rc = sqlite3_config(SQLITE_CONFIG_MALLOC, &mine);
    if (rc != SQLITE_OK) return rc;
    sq_installed = 1;
    return sqlite3_initialize();
}

void vp_sq_fault_arm(long k) { sq_count = 0; sq_fail_at = k; sq_failed = 0; }
long vp_sq_fault_count(void) { return sq_count; }
long vp_sq_fault_delivered(void) { return sq_failed; }
long vp_sq_live_blocks(void) { return sq_live_blocks; }
long long vp_sq_memory_used(void) { return (long long) sqlite3_memory_used(); }

/* ------------------------------------------------------------------------------------------------
 * handle counters (ICU converters, UFILEs, SQLite connections and statements)
 * ---------------------------------------------------------------------------------------------- */

static long n_ucnv = 0, n_ufile = 0, n_sqdb = 0, n_sqstmt = 0;

UConverter *REALNAME(ucnv_open)(const char *, UErrorCode *);
void REALNAME(ucnv_close)(UConverter *);
UFILE *REALNAME(u_finit)(FILE *, const char *, const char *);
void REALNAME(u_fclose)(UFILE *);
int __real_sqlite3_open_v2(const char *, sqlite3 **, int, const char *);
int __real_sqlite3_close(sqlite3 *);
int __real_sqlite3_prepare_v2(sqlite3 *, const char *, int, sqlite3_stmt **, const char *);
int __real_sqlite3_finalize(sqlite3_stmt *);

UConverter *WRAPNAME(ucnv_open)(const char *name, UErrorCode *err) {
    UConverter *c = REALNAME(ucnv_open)(name, err);
    if (c) n_ucnv++;
    return c;
}
void WRAPNAME(ucnv_close)(UConverter *c) { if (c) n_ucnv--; REALNAME(ucnv_close)(c); }
UFILE *WRAPNAME(u_finit)(FILE *f, const char *loc, const char *cp) {
    UFILE *u = REALNAME(u_finit)(f, loc, cp);
    if (u) n_ufile++;
    return u;
}
void WRAPNAME(u_fclose)(UFILE *u) { if (u) n_ufile--; REALNAME(u_fclose)(u); }
int __wrap_sqlite3_open_v2(const char *fn, sqlite3 **db, int flags, const char *vfs) {
    int rc = __real_sqlite3_open_v2(fn, db, flags, vfs);
    if (*db) n_sqdb++;   /* a handle is returned even on most failures and must be closed */
    return rc;
}
int __wrap_sqlite3_close(sqlite3 *db) {
    int rc = __real_sqlite3_close(db);
    if (db && rc == SQLITE_OK) n_sqdb--;
    return rc;
}
int __wrap_sqlite3_prepare_v2(sqlite3 *db, const char *sql, int n, sqlite3_stmt **st, const char *tail) {
    int rc = __real_sqlite3_prepare_v2(db, sql, n, st, tail);
    if (st && *st) n_sqstmt++;
    return rc;
}
int __wrap_sqlite3_finalize(sqlite3_stmt *st) {
    if (st) n_sqstmt--;
    return __real_sqlite3_finalize(st);
}

void vp_handle_counts(long out[4]) { out[0] = n_ucnv; out[1] = n_ufile; out[2] = n_sqdb; out[3] = n_sqstmt; }

/* ------------------------------------------------------------------------------------------------
 * global state probes
 * ---------------------------------------------------------------------------------------------- */

static char want_locale[64] = "C";

int vp_set_numeric_locale(const char *name) {
    char *r = setlocale(LC_NUMERIC, name);
    if (!r) return -1;
    strncpy(want_locale, r, sizeof(want_locale) - 1);
    return 0;
}
int vp_numeric_locale_ok(void) {
    const char *cur = setlocale(LC_NUMERIC, NULL);
    return cur && strcmp(cur, want_locale) == 0;
}
const char *vp_numeric_locale(void) { return setlocale(LC_NUMERIC, NULL); }
int vp_fegetround(void) { return fegetround(); }
int vp_fesetround(int m) { return fesetround(m); }
void vp_round_consts(int out[4]) { out[0] = FE_TONEAREST; out[1] = FE_DOWNWARD; out[2] = FE_UPWARD; out[3] = FE_TOWARDZERO; }

/* 1 = a transaction is open on the CIF's connection */
int vp_in_transaction(cif_tp *cif) { return (cif && cif->db) ? !sqlite3_get_autocommit(cif->db) : -1; }
/* the storage engine's last error message for this CIF (diagnostics in witnesses only) */
const char *vp_db_errmsg(cif_tp *cif) { return (cif && cif->db) ? sqlite3_errmsg(cif->db) : ""; }

/* ------------------------------------------------------------------------------------------------
 * sanitizer-visible reads
 * ---------------------------------------------------------------------------------------------- */

unsigned vp_touch_uchars(const UChar *p, size_t n) {
    volatile const UChar *v = p;
    unsigned acc = 0;
    size_t i;
    for (i = 0; i < n; i++) acc += v[i];
    return acc;
}
size_t vp_ustrlen(const UChar *p) { size_t n = 0; while (p[n]) n++; return n; }
unsigned vp_touch_bytes(const char *p, size_t n) {
    volatile const char *v = p; unsigned acc = 0; size_t i;
    for (i = 0; i < n; i++) acc += (unsigned char) v[i];
    return acc;
}

/* ------------------------------------------------------------------------------------------------
 * streams
 * ---------------------------------------------------------------------------------------------- */

typedef struct {
    const unsigned char *data;
    size_t len, pos;
    long reads, fail_at;   /* fail the read with this ordinal (1-based); 0 = never */
    size_t chunk;          /* max bytes delivered per read; 0 = unlimited */
} rd_cookie;

static long rd_failures = 0;     /* injected read failures delivered since the last vp_open_reader */
long vp_reader_failures(void) { return rd_failures; }

static ssize_t rdc_read(void *c, char *buf, size_t n) {
    rd_cookie *k = (rd_cookie *) c;
    k->reads++;
    if (k->fail_at && k->reads >= k->fail_at) { rd_failures++; errno = EIO; return -1; }
    if (k->chunk && n > k->chunk) n = k->chunk;
    if (n > k->len - k->pos) n = k->len - k->pos;
    memcpy(buf, k->data + k->pos, n);
    k->pos += n;
    return (ssize_t) n;
}
static int rdc_close(void *c) { rd_cookie *k = (rd_cookie *) c; __real_free((void *) k->data); __real_free(k); return 0; }

/* a read-only stream over a private copy of data; the fail_at-th low-level read (and every later one) fails */
FILE *vp_open_reader(const unsigned char *data, size_t len, long fail_at, size_t chunk) {
    cookie_io_functions_t io = { rdc_read, NULL, NULL, rdc_close };
    rd_cookie *k = (rd_cookie *) __real_malloc(sizeof(rd_cookie));
    unsigned char *copy = (unsigned char *) __real_malloc(len ? len : 1);
    FILE *f;
    if (!k || !copy) abort();
    memcpy(copy, data, len);
    k->data = copy; k->len = len; k->pos = 0; k->reads = 0; k->fail_at = fail_at; k->chunk = chunk;
    rd_failures = 0;
    f = fopencookie(k, "rb", io);
    if (!f) abort();
    return f;
}

typedef struct { char *buf; size_t len; FILE *f; } wr_handle;

wr_handle *vp_open_writer(void) {
    wr_handle *h = (wr_handle *) __real_calloc(1, sizeof(wr_handle));
    if (!h) abort();
    h->f = open_memstream(&h->buf, &h->len);
    if (!h->f) abort();
    return h;
}
FILE *vp_writer_file(wr_handle *h) { return h->f; }
/* flushes; returns pointer/len valid until vp_writer_close */
const char *vp_writer_data(wr_handle *h, size_t *len) { fflush(h->f); *len = h->len; return h->buf; }
void vp_writer_close(wr_handle *h) { fclose(h->f); __real_free(h->buf); __real_free(h); }

/* a write stream whose n-th low-level write fails (for cif_write error paths) */
typedef struct { long writes, fail_at; } ww_cookie;
static ssize_t wwc_write(void *c, const char *buf, size_t n) {
    ww_cookie *k = (ww_cookie *) c; (void) buf;
    k->writes++;
    if (k->fail_at && k->writes >= k->fail_at) { errno = ENOSPC; return 0; }
    return (ssize_t) n;
}
static int wwc_close(void *c) { __real_free(c); return 0; }
FILE *vp_open_failing_writer(long fail_at) {
    cookie_io_functions_t io = { NULL, wwc_write, NULL, wwc_close };
    ww_cookie *k = (ww_cookie *) __real_calloc(1, sizeof(ww_cookie));
    FILE *f;
    if (!k) abort();
    k->fail_at = fail_at;
    f = fopencookie(k, "wb", io);
    if (!f) abort();
    setvbuf(f, NULL, _IOFBF, 512);
    return f;
}
int vp_fclose(FILE *f) { return fclose(f); }

/* cif_errlist / cif_nerr are data symbols; hand them out */
extern const char cif_errlist[][80];
extern const int cif_nerr;
const char *vp_errlist_entry(int i) { return cif_errlist[i]; }
int vp_nerr(void) { return cif_nerr; }

/* reach measurement only (tools/coverage.py, the 'cov' build): workers leave with _exit, so flush the counters */
#ifdef VP_COVERAGE
extern void __gcov_dump(void);
void vp_cov_dump(void) { __gcov_dump(); }
#else
void vp_cov_dump(void) { }
#endif
