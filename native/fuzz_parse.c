/* libFuzzer entry point: the contract checks of parse_run.c on every generated input */
#include <stddef.h>
#include <stdint.h>
#include "parse_run.c"

int LLVMFuzzerTestOneInput(const uint8_t *data, size_t size) {
    if (size > (1u << 20)) return 0;
    vp_run(data, size);
    return 0;
}
