"""Violation records, KNOWN_FINDINGS matching, replay files."""
import hashlib
import json
import os
import re

VERIF = os.path.dirname(os.path.dirname(os.path.abspath(__file__)))
KNOWN_FILE = os.path.join(VERIF, 'KNOWN_FINDINGS.txt')
REPLAY_ROOT = os.path.join(VERIF, 'replays')


class Known:
    def __init__(self, path=KNOWN_FILE):
        self.findings = {}     # (property, key) -> text
        self.patterns = []     # (property, compiled regex, text)   for key=~<regex>
        self.fixed = []
        if os.path.exists(path):
            with open(path) as f:
                for line in f:
                    line = line.strip()
                    if not line or line.startswith('#'):
                        continue
                    m = re.match(r'finding:\s+property=(\S+)\s+key=(\S+)\s*(.*)$', line)
                    if m:
                        self.findings[(m.group(1), m.group(2))] = m.group(3)
                        continue
                    if line.startswith('fixed:'):
                        self.fixed.append(line)

    def lookup(self, prop, key):
        return self.findings.get((prop, key))


def key_hash(key):
    return hashlib.sha1(key.encode()).hexdigest()[:12]


def write_replay(prop, key, record):
    d = os.path.join(REPLAY_ROOT, prop)
    os.makedirs(d, exist_ok=True)
    path = os.path.join(d, key_hash(key) + '.json')
    rec = dict(record)
    rec['property'] = prop
    rec['key'] = key
    rec['replay_cmd'] = './check %s --replay %s' % (prop, os.path.relpath(path, VERIF))
    with open(path, 'w') as f:
        json.dump(rec, f, indent=1, sort_keys=True, default=repr)
    return path
