"""ctypes binding of the instrumented libcif (+ vphelp) with always-on call-boundary monitors.

Every public call made through `Lib.call` is followed by probes of process-global state (numeric locale,
floating-point rounding mode).  Monitor findings are appended to `Lib.events`; the checks turn them into violations.
"""
import ctypes as C
import os

c_void_p = C.c_void_p
UCharP = C.c_void_p          # const UChar * / UChar *  (we pass ctypes buffers or raw addresses)
P = C.POINTER

# result codes (transcribed from cif.h; C20 re-derives them from the header text at run time)
CIF_OK = 0
CIF_FINISHED = 1
CIF_ERROR = 2
CIF_MEMORY_ERROR = 3
CIF_INVALID_HANDLE = 4
CIF_INTERNAL_ERROR = 5
CIF_ARGUMENT_ERROR = 6
CIF_MISUSE = 7
CIF_NOT_SUPPORTED = 8
CIF_ENVIRONMENT_ERROR = 9
CIF_CLIENT_ERROR = 10
CIF_DUP_BLOCKCODE = 11
CIF_INVALID_BLOCKCODE = 12
CIF_NOSUCH_BLOCK = 13
CIF_DUP_FRAMECODE = 21
CIF_INVALID_FRAMECODE = 22
CIF_NOSUCH_FRAME = 23
CIF_CAT_NOT_UNIQUE = 31
CIF_INVALID_CATEGORY = 32
CIF_NOSUCH_LOOP = 33
CIF_RESERVED_LOOP = 34
CIF_WRONG_LOOP = 35
CIF_EMPTY_LOOP = 36
CIF_NULL_LOOP = 37
CIF_DUP_ITEMNAME = 41
CIF_INVALID_ITEMNAME = 42
CIF_NOSUCH_ITEM = 43
CIF_AMBIGUOUS_ITEM = 44
CIF_INVALID_PACKET = 52
CIF_PARTIAL_PACKET = 53
CIF_DISALLOWED_VALUE = 62
CIF_INVALID_NUMBER = 72
CIF_INVALID_INDEX = 73
CIF_INVALID_BARE_VALUE = 74
CIF_INVALID_CHAR = 102
CIF_UNMAPPED_CHAR = 103
CIF_DISALLOWED_CHAR = 104
CIF_MISSING_SPACE = 105
CIF_MISSING_ENDQUOTE = 106
CIF_UNCLOSED_TEXT = 107
CIF_OVERLENGTH_LINE = 108
CIF_DISALLOWED_INITIAL_CHAR = 109
CIF_WRONG_ENCODING = 110
CIF_NO_BLOCK_HEADER = 113
CIF_FRAME_NOT_ALLOWED = 122
CIF_NO_FRAME_TERM = 123
CIF_UNEXPECTED_TERM = 124
CIF_EOF_IN_FRAME = 126
CIF_RESERVED_WORD = 132
CIF_MISSING_VALUE = 133
CIF_UNEXPECTED_VALUE = 134
CIF_UNEXPECTED_DELIM = 135
CIF_MISSING_DELIM = 136
CIF_MISSING_KEY = 137
CIF_UNQUOTED_KEY = 138
CIF_MISQUOTED_KEY = 139
CIF_NULL_KEY = 140

DEFINED_CODES = frozenset([0, 1, 2, 3, 4, 5, 6, 7, 8, 9, 10, 11, 12, 13, 21, 22, 23, 31, 32, 33, 34, 35, 36, 37, 41,
                           42, 43, 44, 52, 53, 62, 72, 73, 74, 102, 103, 104, 105, 106, 107, 108, 109, 110, 113, 122,
                           123, 124, 126, 132, 133, 134, 135, 136, 137, 138, 139, 140])

TRAVERSE_CONTINUE = 0
TRAVERSE_SKIP_CURRENT = -1
TRAVERSE_SKIP_SIBLINGS = -2
TRAVERSE_END = -3

KIND_CHAR, KIND_NUMB, KIND_LIST, KIND_TABLE, KIND_NA, KIND_UNK = 0, 1, 2, 3, 4, 5

CB_CIF = C.CFUNCTYPE(C.c_int, c_void_p, c_void_p)
CB_CONT = C.CFUNCTYPE(C.c_int, c_void_p, c_void_p)
CB_LOOP = C.CFUNCTYPE(C.c_int, c_void_p, c_void_p)
CB_PKT = C.CFUNCTYPE(C.c_int, c_void_p, c_void_p)
CB_ITEM = C.CFUNCTYPE(C.c_int, c_void_p, c_void_p, c_void_p)
CB_ERR = C.CFUNCTYPE(C.c_int, C.c_int, C.c_size_t, C.c_size_t, c_void_p, C.c_size_t, c_void_p)
CB_SYN = C.CFUNCTYPE(None, C.c_size_t, C.c_size_t, c_void_p, C.c_size_t, c_void_p)


class Handler(C.Structure):
    _fields_ = [('cif_start', CB_CIF), ('cif_end', CB_CIF), ('block_start', CB_CONT), ('block_end', CB_CONT),
                ('frame_start', CB_CONT), ('frame_end', CB_CONT), ('loop_start', CB_LOOP), ('loop_end', CB_LOOP),
                ('packet_start', CB_PKT), ('packet_end', CB_PKT), ('item', CB_ITEM)]


class ParseOpts(C.Structure):
    _fields_ = [('prefer_cif2', C.c_int), ('default_encoding_name', C.c_char_p),
                ('force_default_encoding', C.c_int), ('line_folding_modifier', C.c_int),
                ('text_prefixing_modifier', C.c_int), ('max_frame_depth', C.c_int),
                ('extra_ws_chars', C.c_char_p), ('extra_eol_chars', C.c_char_p),
                ('handler', P(Handler)), ('whitespace_callback', CB_SYN), ('keyword_callback', CB_SYN),
                ('dataname_callback', CB_SYN), ('error_callback', CB_ERR), ('user_data', c_void_p)]


class WriteOpts(C.Structure):
    _fields_ = [('cif_version', C.c_int)]


class Analysis(C.Structure):
    _fields_ = [('delim', C.c_uint16 * 4), ('length', C.c_int32), ('length_first', C.c_int32),
                ('length_last', C.c_int32), ('length_max', C.c_int32), ('num_lines', C.c_int32),
                ('max_semi_run', C.c_int32), ('delim_length', C.c_uint), ('contains_text_delim', C.c_int),
                ('has_reserved_start', C.c_int), ('has_trailing_ws', C.c_int)]


def U(s):
    """Python str (may hold lone surrogates) -> NUL-terminated UTF-16 buffer"""
    if s is None:
        return None
    return C.create_string_buffer(s.encode('utf-16-le', 'surrogatepass') + b'\0\0')


def units(s):
    """number of UTF-16 code units of a Python str"""
    return len(s.encode('utf-16-le', 'surrogatepass')) // 2


class HarnessError(Exception):
    """the harness itself (not the library) is broken or was used outside its assumptions"""


_SIGS = {
    # name: (restype, argtypes)
    'cif_create': (C.c_int, [P(c_void_p)]),
    'cif_destroy': (C.c_int, [c_void_p]),
    'cif_create_block': (C.c_int, [c_void_p, UCharP, P(c_void_p)]),
    'cif_get_block': (C.c_int, [c_void_p, UCharP, P(c_void_p)]),
    'cif_get_all_blocks': (C.c_int, [c_void_p, P(P(c_void_p))]),
    'cif_walk': (C.c_int, [c_void_p, P(Handler), c_void_p]),
    'cif_container_create_frame': (C.c_int, [c_void_p, UCharP, P(c_void_p)]),
    'cif_container_free': (None, [c_void_p]),
    'cif_container_destroy': (C.c_int, [c_void_p]),
    'cif_container_get_frame': (C.c_int, [c_void_p, UCharP, P(c_void_p)]),
    'cif_container_get_all_frames': (C.c_int, [c_void_p, P(P(c_void_p))]),
    'cif_container_get_code': (C.c_int, [c_void_p, P(c_void_p)]),
    'cif_container_assert_block': (C.c_int, [c_void_p]),
    'cif_container_create_loop': (C.c_int, [c_void_p, UCharP, P(c_void_p), P(c_void_p)]),
    'cif_container_get_category_loop': (C.c_int, [c_void_p, UCharP, P(c_void_p)]),
    'cif_container_get_item_loop': (C.c_int, [c_void_p, UCharP, P(c_void_p)]),
    'cif_container_get_all_loops': (C.c_int, [c_void_p, P(P(c_void_p))]),
    'cif_container_prune': (C.c_int, [c_void_p]),
    'cif_container_get_value': (C.c_int, [c_void_p, UCharP, P(c_void_p)]),
    'cif_container_set_value': (C.c_int, [c_void_p, UCharP, c_void_p]),
    'cif_container_remove_item': (C.c_int, [c_void_p, UCharP]),
    'cif_loop_free': (None, [c_void_p]),
    'cif_loop_destroy': (C.c_int, [c_void_p]),
    'cif_loop_get_category': (C.c_int, [c_void_p, P(c_void_p)]),
    'cif_loop_set_category': (C.c_int, [c_void_p, UCharP]),
    'cif_loop_get_names': (C.c_int, [c_void_p, P(P(c_void_p))]),
    'cif_loop_add_item': (C.c_int, [c_void_p, UCharP, c_void_p]),
    'cif_loop_add_packet': (C.c_int, [c_void_p, c_void_p]),
    'cif_loop_get_packets': (C.c_int, [c_void_p, P(c_void_p)]),
    'cif_pktitr_close': (C.c_int, [c_void_p]),
    'cif_pktitr_abort': (C.c_int, [c_void_p]),
    'cif_pktitr_next_packet': (C.c_int, [c_void_p, P(c_void_p)]),
    'cif_pktitr_update_packet': (C.c_int, [c_void_p, c_void_p]),
    'cif_pktitr_remove_packet': (C.c_int, [c_void_p]),
    'cif_packet_create': (C.c_int, [P(c_void_p), P(c_void_p)]),
    'cif_packet_get_names': (C.c_int, [c_void_p, P(P(c_void_p))]),
    'cif_packet_set_item': (C.c_int, [c_void_p, UCharP, c_void_p]),
    'cif_packet_get_item': (C.c_int, [c_void_p, UCharP, P(c_void_p)]),
    'cif_packet_remove_item': (C.c_int, [c_void_p, UCharP, P(c_void_p)]),
    'cif_packet_free': (None, [c_void_p]),
    'cif_value_create': (C.c_int, [C.c_int, P(c_void_p)]),
    'cif_value_clean': (None, [c_void_p]),
    'cif_value_free': (None, [c_void_p]),
    'cif_value_clone': (C.c_int, [c_void_p, P(c_void_p)]),
    'cif_value_init': (C.c_int, [c_void_p, C.c_int]),
    'cif_value_init_char': (C.c_int, [c_void_p, c_void_p]),
    'cif_value_copy_char': (C.c_int, [c_void_p, UCharP]),
    'cif_value_parse_numb': (C.c_int, [c_void_p, c_void_p]),
    'cif_value_init_numb': (C.c_int, [c_void_p, C.c_double, C.c_double, C.c_int, C.c_int]),
    'cif_value_autoinit_numb': (C.c_int, [c_void_p, C.c_double, C.c_double, C.c_uint]),
    'cif_value_kind': (C.c_int, [c_void_p]),
    'cif_value_is_quoted': (C.c_int, [c_void_p]),
    'cif_value_set_quoted': (C.c_int, [c_void_p, C.c_int]),
    'cif_value_try_quoted': (C.c_int, [c_void_p, C.c_int]),
    'cif_value_get_number': (C.c_int, [c_void_p, P(C.c_double)]),
    'cif_value_get_su': (C.c_int, [c_void_p, P(C.c_double)]),
    'cif_value_get_text': (C.c_int, [c_void_p, P(c_void_p)]),
    'cif_value_get_element_count': (C.c_int, [c_void_p, P(C.c_size_t)]),
    'cif_value_get_element_at': (C.c_int, [c_void_p, C.c_size_t, P(c_void_p)]),
    'cif_value_set_element_at': (C.c_int, [c_void_p, C.c_size_t, c_void_p]),
    'cif_value_insert_element_at': (C.c_int, [c_void_p, C.c_size_t, c_void_p]),
    'cif_value_remove_element_at': (C.c_int, [c_void_p, C.c_size_t, P(c_void_p)]),
    'cif_value_get_keys': (C.c_int, [c_void_p, P(P(c_void_p))]),
    'cif_value_set_item_by_key': (C.c_int, [c_void_p, UCharP, c_void_p]),
    'cif_value_get_item_by_key': (C.c_int, [c_void_p, UCharP, P(c_void_p)]),
    'cif_value_remove_item_by_key': (C.c_int, [c_void_p, UCharP, P(c_void_p)]),
    'cif_get_api_version': (C.c_int, [P(c_void_p)]),
    'cif_u_strdup': (c_void_p, [UCharP]),
    'cif_normalize': (C.c_int, [UCharP, C.c_int32, P(c_void_p)]),
    'cif_cstr_to_ustr': (C.c_int, [C.c_char_p, C.c_int32, P(c_void_p)]),
    'cif_analyze_string': (C.c_int, [UCharP, C.c_int, C.c_int, C.c_int32, P(Analysis)]),
    'cif_is_reserved_string': (C.c_int, [UCharP]),
    'cif_parse': (C.c_int, [c_void_p, P(ParseOpts), P(c_void_p)]),
    'cif_parse_options_create': (C.c_int, [P(c_void_p)]),
    'cif_write_options_create': (C.c_int, [P(c_void_p)]),
    'cif_parse_error_ignore': (C.c_int, [C.c_int, C.c_size_t, C.c_size_t, c_void_p, C.c_size_t, c_void_p]),
    'cif_parse_error_die': (C.c_int, [C.c_int, C.c_size_t, C.c_size_t, c_void_p, C.c_size_t, c_void_p]),
    'cif_write': (C.c_int, [c_void_p, P(WriteOpts), c_void_p]),
    # helpers
    'vp_free': (None, [c_void_p]),
    'vp_malloc': (c_void_p, [C.c_size_t]),
    'vp_ledger_live': (C.c_size_t, []),
    'vp_ledger_serial': (C.c_ulong, []),
    'vp_unknown_frees': (C.c_long, []),
    'vp_unknown_free_site': (C.c_size_t, []),
    'vp_ledger_report': (C.c_size_t, [C.c_ulong, C.c_char_p, C.c_size_t, C.c_size_t]),
    'vp_ledger_forget': (None, [C.c_ulong]),
    'vp_lib_fault_arm': (None, [C.c_long]),
    'vp_lib_fault_count': (C.c_long, []),
    'vp_lib_fault_delivered': (C.c_long, []),
    'vp_lib_fault_site': (C.c_size_t, []),
    'vp_sqlite_hook_install': (C.c_int, []),
    'vp_sq_fault_arm': (None, [C.c_long]),
    'vp_sq_fault_count': (C.c_long, []),
    'vp_sq_fault_delivered': (C.c_long, []),
    'vp_sq_live_blocks': (C.c_long, []),
    'vp_sq_memory_used': (C.c_longlong, []),
    'vp_handle_counts': (None, [P(C.c_long * 4)]),
    'vp_set_numeric_locale': (C.c_int, [C.c_char_p]),
    'vp_numeric_locale_ok': (C.c_int, []),
    'vp_numeric_locale': (C.c_char_p, []),
    'vp_fegetround': (C.c_int, []),
    'vp_fesetround': (C.c_int, [C.c_int]),
    'vp_round_consts': (None, [P(C.c_int * 4)]),
    'vp_in_transaction': (C.c_int, [c_void_p]),
    'vp_db_errmsg': (C.c_char_p, [c_void_p]),
    'vp_touch_uchars': (C.c_uint, [c_void_p, C.c_size_t]),
    'vp_touch_bytes': (C.c_uint, [c_void_p, C.c_size_t]),
    'vp_ustrlen': (C.c_size_t, [c_void_p]),
    'vp_open_reader': (c_void_p, [C.c_char_p, C.c_size_t, C.c_long, C.c_size_t]),
    'vp_reader_failures': (C.c_long, []),
    'vp_open_writer': (c_void_p, []),
    'vp_writer_file': (c_void_p, [c_void_p]),
    'vp_writer_data': (c_void_p, [c_void_p, P(C.c_size_t)]),
    'vp_writer_close': (None, [c_void_p]),
    'vp_open_failing_writer': (c_void_p, [C.c_long]),
    'vp_fclose': (C.c_int, [c_void_p]),
    'vp_errlist_entry': (C.c_char_p, [C.c_int]),
    'vp_nerr': (C.c_int, []),
}


class Lib:
    def __init__(self, path, numeric_locale=b'C.utf8', monitors=True):
        self.path = path
        self.dll = C.CDLL(path)
        self.f = {}
        for name, (res, args) in _SIGS.items():
            fn = getattr(self.dll, name)
            fn.restype = res
            fn.argtypes = args
            self.f[name] = fn
            setattr(self, name, fn)
        rc = self.vp_sqlite_hook_install()
        if rc != 0:
            raise HarnessError('cannot install the SQLite allocation hook: %d' % rc)
        self.events = []          # monitor findings: (kind, function, detail)
        self.monitors = monitors
        rc4 = (C.c_int * 4)()
        self.vp_round_consts(C.byref(rc4))
        self.ROUND = {'nearest': rc4[0], 'down': rc4[1], 'up': rc4[2], 'zero': rc4[3]}
        self.rounding = None       # when set, each call runs under this rounding mode
        self._depth = 0
        self.tick = None          # progress heartbeat installed by the worker
        self.number_probe = None
        if monitors:
            from . import numprobe
            numprobe.install(self)
        if numeric_locale is not None:
            if self.vp_set_numeric_locale(numeric_locale) != 0:
                raise HarnessError('numeric locale %r is not available' % numeric_locale)
        self.ncalls = 0
        self.calls_by_name = {}
        self.warmup()

    def warmup(self):
        """one complete life cycle, so that first-use allocations of SQLite / ICU do not look like session leaks"""
        rc, cif = self.create()
        if rc != CIF_OK:
            raise HarnessError('cif_create fails in this environment: %d' % rc)
        rc, b = self.create_block(cif, 'warm')
        v = self.make_value(('char', 'x', True))
        self.set_value(b, '_warm', v)
        self.value_free(v)
        self.normalize('Warm\u00e9')
        self.container_free(b)
        rc, data = self.write_bytes(cif)
        self.destroy(cif)
        rc, c2 = self.parse_bytes(data)
        if c2:
            self.destroy(c2)
        self.events.clear()

    # ---- monitored call ----
    def call(self, name, *args):
        fn = self.f[name]
        self.ncalls += 1
        if self.tick is not None and (self.ncalls & 1023) == 0:
            self.tick()
        self.calls_by_name[name] = self.calls_by_name.get(name, 0) + 1
        if not self.monitors:
            return fn(*args)
        mode = self.rounding
        if mode is not None:
            # calls made from inside a callback of an outer call run under the outer call's mode and leave it in place
            outer = self._depth == 0
            if outer:
                self.vp_fesetround(mode)
            self._depth += 1
            try:
                r = fn(*args)
            finally:
                self._depth -= 1
            got = self.vp_fegetround()
            if outer:
                self.vp_fesetround(self.ROUND['nearest'])
            elif got != mode:
                self.vp_fesetround(mode)
            if got != mode:
                self.events.append(('gstate', name, 'fenv:%d->%d' % (mode, got)))
        else:
            r = fn(*args)
            got = self.vp_fegetround()
            if got != self.ROUND['nearest']:
                self.vp_fesetround(self.ROUND['nearest'])
                self.events.append(('gstate', name, 'fenv:%d->%d' % (self.ROUND['nearest'], got)))
        if not self.vp_numeric_locale_ok():
            cur = self.vp_numeric_locale()
            self.events.append(('gstate', name, 'locale:%s' % (cur.decode() if cur else None)))
            # put it back so that one defect yields one event per call site, not a cascade
            self.vp_set_numeric_locale(b'C.utf8')
        return r

    # ---- strings ----
    def ustr(self, addr):
        """UChar* -> Python str (does not free)"""
        if not addr:
            return None
        n = self.vp_ustrlen(addr)
        return C.string_at(addr, 2 * n).decode('utf-16-le', 'surrogatepass')

    def take_ustr(self, addr):
        s = self.ustr(addr)
        if addr:
            self.vp_free(addr)
        return s

    def malloc_ustr(self, s):
        """a ledger-registered heap copy, for functions that take ownership of their text argument"""
        b = s.encode('utf-16-le', 'surrogatepass') + b'\0\0'
        p = self.vp_malloc(len(b))
        C.memmove(p, b, len(b))
        return p

    def ustr_array(self, names):
        """list of str -> (NULL-terminated UChar*[] , keepalive)"""
        bufs = [U(n) for n in names]
        arr = (c_void_p * (len(names) + 1))()
        for i, b in enumerate(bufs):
            arr[i] = C.addressof(b)
        arr[len(names)] = None
        return arr, bufs

    # ---- whole-CIF ----
    def create(self):
        p = c_void_p()
        rc = self.call('cif_create', C.byref(p))
        return rc, p.value

    def destroy(self, cif):
        return self.call('cif_destroy', cif)

    def create_block(self, cif, code, want=True):
        p = c_void_p()
        rc = self.call('cif_create_block', cif, U(code), C.byref(p) if want else None)
        return rc, p.value

    def get_block(self, cif, code, want=True):
        p = c_void_p()
        rc = self.call('cif_get_block', cif, U(code), C.byref(p) if want else None)
        return rc, p.value

    def _handle_array(self, fname, owner):
        arr = P(c_void_p)()
        rc = self.call(fname, owner, C.byref(arr))
        out = []
        if rc == CIF_OK:
            i = 0
            while arr[i]:
                out.append(arr[i])
                i += 1
            self.vp_free(C.cast(arr, c_void_p))
        return rc, out

    def get_all_blocks(self, cif):
        return self._handle_array('cif_get_all_blocks', cif)

    # ---- containers ----
    def create_frame(self, cont, code, want=True):
        p = c_void_p()
        rc = self.call('cif_container_create_frame', cont, U(code), C.byref(p) if want else None)
        return rc, p.value

    def get_frame(self, cont, code, want=True):
        p = c_void_p()
        rc = self.call('cif_container_get_frame', cont, U(code), C.byref(p) if want else None)
        return rc, p.value

    def get_all_frames(self, cont):
        return self._handle_array('cif_container_get_all_frames', cont)

    def container_free(self, cont):
        self.call('cif_container_free', cont)

    def container_destroy(self, cont):
        return self.call('cif_container_destroy', cont)

    def get_code(self, cont):
        p = c_void_p()
        rc = self.call('cif_container_get_code', cont, C.byref(p))
        return rc, (self.take_ustr(p.value) if rc == CIF_OK else None)

    def assert_block(self, cont):
        return self.call('cif_container_assert_block', cont)

    def create_loop(self, cont, category, names, want=True):
        arr, keep = self.ustr_array(names)
        p = c_void_p()
        rc = self.call('cif_container_create_loop', cont, U(category), arr, C.byref(p) if want else None)
        return rc, p.value

    def get_category_loop(self, cont, category, want=True):
        p = c_void_p()
        rc = self.call('cif_container_get_category_loop', cont, U(category), C.byref(p) if want else None)
        return rc, p.value

    def get_item_loop(self, cont, name, want=True):
        p = c_void_p()
        rc = self.call('cif_container_get_item_loop', cont, U(name), C.byref(p) if want else None)
        return rc, p.value

    def get_all_loops(self, cont):
        return self._handle_array('cif_container_get_all_loops', cont)

    def prune(self, cont):
        return self.call('cif_container_prune', cont)

    def get_value(self, cont, name, into=None, want=True):
        """returns (rc, value pointer or None); `into` = existing value object to overwrite"""
        p = c_void_p(into)
        rc = self.call('cif_container_get_value', cont, U(name), C.byref(p) if want else None)
        return rc, p.value

    def set_value(self, cont, name, val):
        return self.call('cif_container_set_value', cont, U(name), val)

    def remove_item(self, cont, name):
        return self.call('cif_container_remove_item', cont, U(name))

    # ---- loops ----
    def loop_free(self, loop):
        self.call('cif_loop_free', loop)

    def loop_destroy(self, loop):
        return self.call('cif_loop_destroy', loop)

    def loop_get_category(self, loop):
        p = c_void_p()
        rc = self.call('cif_loop_get_category', loop, C.byref(p))
        return rc, (self.take_ustr(p.value) if rc == CIF_OK else None)

    def loop_set_category(self, loop, cat):
        return self.call('cif_loop_set_category', loop, U(cat))

    def loop_get_names(self, loop):
        arr = P(c_void_p)()
        rc = self.call('cif_loop_get_names', loop, C.byref(arr))
        out = []
        if rc == CIF_OK:
            i = 0
            while arr[i]:
                out.append(self.take_ustr(arr[i]))
                i += 1
            self.vp_free(C.cast(arr, c_void_p))
        return rc, out

    def loop_add_item(self, loop, name, val):
        return self.call('cif_loop_add_item', loop, U(name), val)

    def loop_add_packet(self, loop, packet):
        return self.call('cif_loop_add_packet', loop, packet)

    def loop_get_packets(self, loop):
        p = c_void_p()
        rc = self.call('cif_loop_get_packets', loop, C.byref(p))
        return rc, p.value

    # ---- iterators ----
    def it_close(self, it):
        return self.call('cif_pktitr_close', it)

    def it_abort(self, it):
        return self.call('cif_pktitr_abort', it)

    def it_next(self, it, mode='new', packet=None):
        """mode: 'new' (fresh packet returned), 'reuse' (fill `packet`), 'null' (NULL sink)"""
        if mode == 'null':
            return self.call('cif_pktitr_next_packet', it, None), None
        p = c_void_p(packet if mode == 'reuse' else None)
        rc = self.call('cif_pktitr_next_packet', it, C.byref(p))
        return rc, p.value

    def it_update(self, it, packet):
        return self.call('cif_pktitr_update_packet', it, packet)

    def it_remove(self, it):
        return self.call('cif_pktitr_remove_packet', it)

    # ---- packets ----
    def packet_create(self, names):
        p = c_void_p()
        if names is None:
            rc = self.call('cif_packet_create', C.byref(p), None)
        else:
            arr, keep = self.ustr_array(names)
            rc = self.call('cif_packet_create', C.byref(p), arr)
        return rc, p.value

    def packet_names(self, packet):
        arr = P(c_void_p)()
        rc = self.call('cif_packet_get_names', packet, C.byref(arr))
        out = []
        if rc == CIF_OK:
            i = 0
            while arr[i]:
                out.append(self.ustr(arr[i]))     # elements belong to the packet
                i += 1
            self.vp_free(C.cast(arr, c_void_p))
        return rc, out

    def packet_set(self, packet, name, val):
        return self.call('cif_packet_set_item', packet, U(name), val)

    def packet_get(self, packet, name, want=True):
        p = c_void_p()
        rc = self.call('cif_packet_get_item', packet, U(name), C.byref(p) if want else None)
        return rc, p.value

    def packet_remove(self, packet, name, want=True):
        p = c_void_p()
        rc = self.call('cif_packet_remove_item', packet, U(name), C.byref(p) if want else None)
        return rc, p.value

    def packet_free(self, packet):
        self.call('cif_packet_free', packet)

    # ---- values ----
    def value_create(self, kind):
        p = c_void_p()
        rc = self.call('cif_value_create', kind, C.byref(p))
        return rc, p.value

    def value_free(self, v):
        self.call('cif_value_free', v)

    def value_clone(self, v, into=None):
        p = c_void_p(into)
        rc = self.call('cif_value_clone', v, C.byref(p))
        return rc, p.value

    def value_text(self, v):
        p = c_void_p()
        rc = self.call('cif_value_get_text', v, C.byref(p))
        return rc, (self.take_ustr(p.value) if rc == CIF_OK else None)

    def value_number(self, v):
        d = C.c_double()
        rc = self.call('cif_value_get_number', v, C.byref(d))
        return rc, d.value

    def value_su(self, v):
        d = C.c_double()
        rc = self.call('cif_value_get_su', v, C.byref(d))
        return rc, d.value

    def value_count(self, v):
        n = C.c_size_t()
        rc = self.call('cif_value_get_element_count', v, C.byref(n))
        return rc, n.value

    def list_get(self, v, i):
        p = c_void_p()
        rc = self.call('cif_value_get_element_at', v, i, C.byref(p))
        return rc, p.value

    def list_remove(self, v, i, want=True):
        p = c_void_p()
        rc = self.call('cif_value_remove_element_at', v, i, C.byref(p) if want else None)
        return rc, p.value

    def table_keys(self, v):
        arr = P(c_void_p)()
        rc = self.call('cif_value_get_keys', v, C.byref(arr))
        out = []
        if rc == CIF_OK:
            i = 0
            while arr[i]:
                out.append(self.ustr(arr[i]))
                i += 1
            self.vp_free(C.cast(arr, c_void_p))
        return rc, out

    def table_get(self, v, key, want=True):
        p = c_void_p()
        rc = self.call('cif_value_get_item_by_key', v, U(key), C.byref(p) if want else None)
        return rc, p.value

    def table_remove(self, v, key, want=True):
        p = c_void_p()
        rc = self.call('cif_value_remove_item_by_key', v, U(key), C.byref(p) if want else None)
        return rc, p.value

    # ---- Python value model <-> value objects ----
    def read_value(self, v, depth=0):
        """value object -> ('char', text, quoted) | ('numb', text, quoted) | ('unk',) | ('na',) |
        ('list', (..)) | ('table', ((key, value), ..)) ; never modifies the value"""
        k = self.call('cif_value_kind', v)
        if k == KIND_CHAR or k == KIND_NUMB:
            rc, text = self.value_text(v)
            if rc != CIF_OK:
                raise HarnessError('cif_value_get_text -> %d' % rc)
            q = self.call('cif_value_is_quoted', v)
            if k == KIND_NUMB and self.number_probe is not None:
                self.number_probe(v, text)
            return ('char' if k == KIND_CHAR else 'numb', text, bool(q))
        if k == KIND_UNK:
            return ('unk',)
        if k == KIND_NA:
            return ('na',)
        if k == KIND_LIST:
            rc, n = self.value_count(v)
            if rc != CIF_OK:
                raise HarnessError('count -> %d' % rc)
            out = []
            for i in range(n):
                rc, e = self.list_get(v, i)
                if rc != CIF_OK:
                    raise HarnessError('element_at(%d of %d) -> %d' % (i, n, rc))
                out.append(self.read_value(e, depth + 1))
            return ('list', tuple(out))
        if k == KIND_TABLE:
            rc, keys = self.table_keys(v)
            if rc != CIF_OK:
                raise HarnessError('get_keys -> %d' % rc)
            out = []
            for key in keys:
                rc, e = self.table_get(v, key)
                if rc != CIF_OK:
                    out.append((key, ('MISSING', rc)))
                else:
                    out.append((key, self.read_value(e, depth + 1)))
            return ('table', tuple(out))
        return ('BADKIND', k)

    def make_value(self, pv):
        """Python model value -> new value object (caller frees).  Raises HarnessError if the API refuses."""
        t = pv[0]
        if t == 'unk':
            rc, v = self.value_create(KIND_UNK)
        elif t == 'na':
            rc, v = self.value_create(KIND_NA)
        elif t == 'char':
            rc, v = self.value_create(KIND_UNK)
            if rc == CIF_OK:
                rc = self.call('cif_value_copy_char', v, U(pv[1]))
                if rc == CIF_OK and pv[2] == 'try':
                    # ask for the bare form whatever the text is: the library refuses where no bare form exists
                    self.call('cif_value_set_quoted', v, 0)
                    if self.call('cif_value_kind', v) != KIND_CHAR:
                        rc = -100
                elif rc == CIF_OK and not pv[2]:
                    rc = self.call('cif_value_set_quoted', v, 0)
                    if rc == CIF_OK and self.call('cif_value_kind', v) != KIND_CHAR:
                        rc = -100   # "?" / "." turned into unknown / n.a.: the caller asked for the impossible
        elif t == 'numb':
            rc, v = self.value_create(KIND_UNK)
            if rc == CIF_OK:
                p = self.malloc_ustr(pv[1])
                rc = self.call('cif_value_parse_numb', v, p)
                if rc != CIF_OK:
                    self.vp_free(p)
                elif pv[2]:
                    rc = self.call('cif_value_set_quoted', v, 1)
        elif t == 'list':
            rc, v = self.value_create(KIND_LIST)
            if rc == CIF_OK:
                for i, e in enumerate(pv[1]):
                    ev = self.make_value(e)
                    rc = self.call('cif_value_insert_element_at', v, i, ev)
                    self.value_free(ev)
                    if rc != CIF_OK:
                        break
        elif t == 'table':
            rc, v = self.value_create(KIND_TABLE)
            if rc == CIF_OK:
                for key, e in pv[1]:
                    ev = self.make_value(e)
                    rc = self.call('cif_value_set_item_by_key', v, U(key), ev)
                    self.value_free(ev)
                    if rc != CIF_OK:
                        break
        else:
            raise HarnessError('bad model value %r' % (pv,))
        if rc != CIF_OK:
            if v:
                self.value_free(v)
            raise HarnessError('cannot build %r: rc=%d' % (pv[:2] if t in ('char', 'numb') else t, rc))
        return v

    # ---- misc ----
    def normalize(self, s, srclen=-1, want=True):
        p = c_void_p()
        rc = self.call('cif_normalize', U(s), srclen, C.byref(p) if want else None)
        return rc, (self.take_ustr(p.value) if rc == CIF_OK and want else None)

    def analyze(self, s, unq, triple, limit):
        a = Analysis()
        rc = self.call('cif_analyze_string', U(s), unq, triple, limit, C.byref(a))
        return rc, a

    def in_transaction(self, cif):
        return self.vp_in_transaction(cif)

    def handle_counts(self):
        a = (C.c_long * 4)()
        self.vp_handle_counts(C.byref(a))
        return tuple(a)

    # ---- I/O ----
    def parse_bytes(self, data, opts=None, target='new', fail_at=0, chunk=0):
        """target: 'new' -> *cif = NULL, created by the parser;  None -> syntax only;  int -> existing CIF.
        returns (rc, cif pointer or None)"""
        f = self.vp_open_reader(data, len(data), fail_at, chunk)
        try:
            if target is None:
                rc = self.call('cif_parse', f, C.byref(opts) if opts is not None else None, None)
                return rc, None
            p = c_void_p(None if target == 'new' else target)
            rc = self.call('cif_parse', f, C.byref(opts) if opts is not None else None, C.byref(p))
            return rc, p.value
        finally:
            self.last_read_failures = self.vp_reader_failures()     # injected read failures the parse actually met
            self.vp_fclose(f)

    def write_bytes(self, cif, version=None):
        """returns (rc, bytes written so far)"""
        w = self.vp_open_writer()
        try:
            if version is None:
                rc = self.call('cif_write', self.vp_writer_file(w), None, cif)
            else:
                wo = WriteOpts(version)
                rc = self.call('cif_write', self.vp_writer_file(w), C.byref(wo), cif)
            n = C.c_size_t()
            p = self.vp_writer_data(w, C.byref(n))
            data = C.string_at(p, n.value) if n.value else b''
            return rc, data
        finally:
            self.vp_writer_close(w)


_lib = None


def get(path=None, **kw):
    """process-wide singleton"""
    global _lib
    if _lib is None:
        if path is None:
            path = os.environ['VP_LIB']
        _lib = Lib(path, **kw)
    return _lib
