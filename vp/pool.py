"""Parent side of the worker pool: starts instrumented worker processes, collects their event streams,
attributes sanitizer aborts / hangs to the case in flight, restarts after it, merges statistics."""
import json
import os
import shutil
import signal
import subprocess
import sys
import tempfile
import threading
import time

from . import sanitizer

VERIF = os.path.dirname(os.path.dirname(os.path.abspath(__file__)))


def _gcc_file(name):
    return subprocess.run(['gcc', '-print-file-name=' + name], stdout=subprocess.PIPE, check=True).stdout.decode().strip()


_asan_so = None


def asan_env(libpath, logdir, extra=None):
    global _asan_so
    if _asan_so is None:
        _asan_so = _gcc_file('libasan.so')
    env = dict(os.environ)
    env['LD_PRELOAD'] = _asan_so
    env['ASAN_OPTIONS'] = ('detect_leaks=0:abort_on_error=1:halt_on_error=1:allocator_may_return_null=1:'
                           'handle_abort=1:log_path=%s/san:print_legend=0:malloc_context_size=12' % logdir)
    env['UBSAN_OPTIONS'] = 'print_stacktrace=1:halt_on_error=1:log_path=%s/san' % logdir
    env['VP_LIB'] = libpath
    env['PYTHONPATH'] = VERIF + os.pathsep + env.get('PYTHONPATH', '')
    env['PYTHONHASHSEED'] = '0'
    env['PYTHONDONTWRITEBYTECODE'] = '1'
    if extra:
        env.update(extra)
    return env


class Result:
    def __init__(self):
        self.violations = []       # dicts: key, detail, case, shard
        self.counters = {}
        self.sets = {}
        self.samples = []
        self.inconclusive = []     # reasons
        self.crashes = 0
        self.hangs = 0
        self.wall = 0.0

    def count(self, name, default=0):
        return self.counters.get(name, default)


class _Shard:
    def __init__(self, idx):
        self.idx = idx
        self.proc = None
        self.last_begin = None     # index of the case in flight
        self.last_begin_info = None
        self.last_msg_time = time.time()
        self.done = False
        self.restarts = 0
        self.stderr_tail = b''
        self.logdir = None
        self.thread = None
        self.err_thread = None
        self.start_after = -1
        self.hang_killed = False
        self.hung = set()


def run(module, params, nshards=16, case_timeout=120, total_timeout=3000, libpath=None, hang_key=None,
        max_restarts=200, extra_env=None, resume_in_case=False):
    """Runs `module.worker(ctx)` in nshards instrumented processes.  `params` must be JSON-serialisable."""
    res = Result()
    t0 = time.time()
    workdir = tempfile.mkdtemp(prefix='vprun-', dir=os.path.join(VERIF, 'build'))
    lock = threading.Lock()
    shards = [_Shard(i) for i in range(nshards)]

    def start(sh):
        sh.logdir = os.path.join(workdir, 's%d-r%d' % (sh.idx, sh.restarts))
        os.makedirs(sh.logdir, exist_ok=True)
        spec = dict(module=module, params=params, shard=sh.idx, nshards=nshards, start_after=sh.start_after)
        if getattr(sh, 'resume', None):
            spec['resume'] = sh.resume
        specfile = os.path.join(sh.logdir, 'spec.json')
        with open(specfile, 'w') as f:
            json.dump(spec, f)
        sh.proc = subprocess.Popen([sys.executable, '-m', 'vp.worker', specfile], stdout=subprocess.PIPE,
                                   stderr=subprocess.PIPE, env=asan_env(libpath, sh.logdir, extra_env), cwd=VERIF)
        sh.last_msg_time = time.time()
        sh.hang_killed = False
        sh.done = False
        sh.thread = threading.Thread(target=reader, args=(sh, sh.proc), daemon=True)
        sh.err_thread = threading.Thread(target=err_reader, args=(sh, sh.proc), daemon=True)
        sh.thread.start()
        sh.err_thread.start()

    def err_reader(sh, proc):
        buf = b''
        for chunk in iter(lambda: proc.stderr.read(65536), b''):
            buf = (buf + chunk)[-200000:]
            sh.stderr_tail = buf

    def handle(sh, msg):
        t = msg.get('t')
        sh.last_msg_time = time.time()
        if t == 'begin':
            sh.last_begin = msg['i']
            sh.last_begin_info = msg.get('info')
        elif t == 'viol':
            msg['shard'] = sh.idx
            with lock:
                res.violations.append(msg)
        elif t == 'stat':
            with lock:
                for k, v in msg.get('counters', {}).items():
                    res.counters[k] = res.counters.get(k, 0) + v
                for k, v in msg.get('sets', {}).items():
                    res.sets.setdefault(k, set()).update(v)
                for k, v in msg.get('maxes', {}).items():
                    res.counters[k] = max(res.counters.get(k, v), v)
                if len(res.samples) < 12:
                    res.samples.extend(msg.get('samples', [])[:max(0, 12 - len(res.samples))])
        elif t == 'inconclusive':
            with lock:
                res.inconclusive.append('shard %d: %s' % (sh.idx, msg.get('why')))
        elif t == 'done':
            sh.done = True

    def reader(sh, proc):
        for line in proc.stdout:
            line = line.strip()
            if not line:
                continue
            try:
                msg = json.loads(line)
            except ValueError:
                continue
            handle(sh, msg)

    for sh in shards:
        start(sh)

    active = set(range(nshards))
    nhang_viol = [0]
    while active:
        time.sleep(0.05)
        now = time.time()
        if nhang_viol[0] >= 3:
            # confirmed hangs are violations already; do not spend hours confirming more of them
            for i in list(active):
                try:
                    shards[i].proc.kill()
                except OSError:
                    pass
            res.counters['stopped_early_after_hangs'] = 1
            break
        if now - t0 > total_timeout:
            for i in list(active):
                try:
                    shards[i].proc.kill()
                except OSError:
                    pass
            res.inconclusive.append('total watchdog (%ds) fired' % total_timeout)
            break
        for i in list(active):
            sh = shards[i]
            rc = sh.proc.poll()
            if rc is None:
                if now - sh.last_msg_time > case_timeout and not sh.hang_killed:
                    sh.hang_killed = True
                    try:
                        sh.proc.send_signal(signal.SIGKILL)
                    except OSError:
                        pass
                continue
            sh.thread.join(timeout=10)
            sh.err_thread.join(timeout=10)
            if sh.done and rc == 0:
                active.discard(i)
                continue
            # abnormal end: attribute to the case in flight
            report = ''
            try:
                for n in sorted(os.listdir(sh.logdir)):
                    if n.startswith('san'):
                        with open(os.path.join(sh.logdir, n), 'rb') as f:
                            report += f.read().decode(errors='replace')
            except OSError:
                pass
            stderr = sh.stderr_tail.decode(errors='replace')
            case = dict(index=sh.last_begin, info=sh.last_begin_info)
            # a precondition class announced by the check for the case in flight becomes part of crash / hang keys
            ksuf = ''
            if isinstance(sh.last_begin_info, dict) and sh.last_begin_info.get('key_suffix'):
                ksuf = ':' + str(sh.last_begin_info['key_suffix'])
            if sh.hang_killed:
                res.hangs += 1
                first_time = sh.last_begin is not None and sh.last_begin not in sh.hung
                if first_time:
                    # a loaded machine can stall a worker: run the same case once more before believing it
                    sh.hung.add(sh.last_begin)
                    sh.start_after = sh.last_begin - nshards
                    sh.restarts += 1
                    sh.last_begin = None
                    start(sh)
                    continue
                nhang_viol[0] += 1
                res.violations.append(dict(t='viol', key='hang:%s%s' % (hang_key or 'case', ksuf),
                                           detail='the case in flight made no progress for %ds, twice; last stderr: %s'
                                                  % (case_timeout, stderr[-300:]),
                                           case=case, shard=sh.idx, hang=True))
            else:
                res.crashes += 1
                keys = sanitizer.parse_report(report + '\n' + stderr)
                if keys:
                    for key, summary in keys[:3]:
                        res.violations.append(dict(t='viol', key=key + ksuf, detail=summary, case=case, shard=sh.idx,
                                                   crash=True))
                else:
                    tail = stderr[-1500:]
                    if 'HarnessError' in tail or 'Traceback' in tail:
                        res.inconclusive.append('shard %d: worker failed: %s' % (sh.idx, tail[-600:]))
                        active.discard(i)
                        continue
                    res.violations.append(dict(t='viol', key='crash:signal%d%s' % (-rc if rc < 0 else rc, ksuf),
                                               detail=tail, case=case, shard=sh.idx, crash=True))
            if sh.last_begin is None or sh.restarts >= max_restarts:
                res.inconclusive.append('shard %d: cannot make progress (rc=%s)' % (sh.idx, rc))
                active.discard(i)
                continue
            sh.start_after = sh.last_begin
            sh.resume = None
            if resume_in_case and isinstance(sh.last_begin_info, dict) and 'resume' in sh.last_begin_info:
                # the case is a sequence of independent steps: continue it behind the step that crashed
                sh.start_after = sh.last_begin - nshards
                sh.resume = dict(index=sh.last_begin, at=sh.last_begin_info['resume'])
            sh.restarts += 1
            sh.last_begin = None
            start(sh)
    res.wall = time.time() - t0
    shutil.rmtree(workdir, ignore_errors=True)
    return res
