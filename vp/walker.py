"""cif_walk / parse handler plumbing: a recording handler whose answers come from a program.

Events are tuples  (kind, payload)  with kind in
  cif_start cif_end block_start block_end frame_start frame_end loop_start loop_end packet_start packet_end item
The payload is what the handle passed to the callback answers when queried *during* the callback (that is part of
the walk property): container code, loop category + names, packet names, item name + value."""
import ctypes as C

from . import lib as _lib
from .lib import (CB_CIF, CB_CONT, CB_LOOP, CB_PKT, CB_ITEM, Handler, CIF_OK)

KINDS = ['cif_start', 'cif_end', 'block_start', 'block_end', 'frame_start', 'frame_end', 'loop_start', 'loop_end',
         'packet_start', 'packet_end', 'item']


class Recorder:
    """program: dict event-index -> answer (int); default 0 (continue).  query=True makes the callbacks interrogate
    the handles they receive."""

    def __init__(self, L, program=None, query=True, parse_mode=False, answer_fn=None, loop_start_hook=None, omit=()):
        self.L = L
        self.omit = frozenset(omit)                 # callback kinds whose handler member stays NULL
        self.loop_start_hook = loop_start_hook      # called with the loop handle before it is queried (parse time)
        self.program = program or {}
        self.answer_fn = answer_fn
        self.query = query
        self.parse_mode = parse_mode
        self.events = []
        self.answers = []
        self.problems = []       # (key, detail) found inside callbacks
        self._keep = []
        h = Handler()
        h.cif_start = self._mk(CB_CIF, 'cif_start', self._cif)
        h.cif_end = self._mk(CB_CIF, 'cif_end', self._cif)
        h.block_start = self._mk(CB_CONT, 'block_start', self._cont)
        h.block_end = self._mk(CB_CONT, 'block_end', self._cont)
        h.frame_start = self._mk(CB_CONT, 'frame_start', self._cont)
        h.frame_end = self._mk(CB_CONT, 'frame_end', self._cont)
        h.loop_start = self._mk(CB_LOOP, 'loop_start', self._loop)
        h.loop_end = self._mk(CB_LOOP, 'loop_end', self._loop)
        h.packet_start = self._mk(CB_PKT, 'packet_start', self._pkt)
        h.packet_end = self._mk(CB_PKT, 'packet_end', self._pkt)
        h.item = self._mk_item()
        for kind in self.omit:
            setattr(h, kind, type(getattr(h, kind))())
        self.handler = h

    def _answer(self, kind, payload):
        i = len(self.events)
        self.events.append((kind, payload))
        if self.answer_fn is not None:
            a = self.answer_fn(i, kind, payload)
        else:
            a = self.program.get(i, 0)
        self.answers.append(a)
        return a

    def _mk(self, ctype, kind, reader):
        def cb(handle, ctx):
            try:
                payload = reader(kind, handle) if self.query else None
                return self._answer(kind, payload)
            except Exception as e:      # a harness problem inside a callback must not be swallowed by ctypes
                self.problems.append(('harness:callback', '%s: %r' % (kind, e)))
                return 0
        f = ctype(cb)
        self._keep.append(f)
        return f

    def _mk_item(self):
        def cb(name, value, ctx):
            try:
                payload = None
                if self.query:
                    nm = self.L.ustr(name) if name else None
                    pv = self.L.read_value(value) if value else None
                    payload = (nm, pv)
                return self._answer('item', payload)
            except Exception as e:
                self.problems.append(('harness:callback', 'item: %r' % (e,)))
                return 0
        f = CB_ITEM(cb)
        self._keep.append(f)
        return f

    # ---- readers: query the handles during the callback ----
    def _cif(self, kind, handle):
        return None

    def _cont(self, kind, handle):
        if not handle:
            return None
        rc, code = self.L.get_code(handle)
        if rc != CIF_OK:
            self.problems.append(('handle:%s:get_code:%d' % (kind, rc), 'cif_container_get_code on the handle passed to %s -> %d' % (kind, rc)))
            return None
        return code

    def _loop(self, kind, handle):
        if not handle:
            return None
        L = self.L
        if kind == 'loop_start' and self.loop_start_hook is not None:
            self.loop_start_hook(handle)
        rc, cat = L.loop_get_category(handle)
        if rc != CIF_OK:
            self.problems.append(('handle:%s:get_category:%d' % (kind, rc), 'cif_loop_get_category in %s -> %d' % (kind, rc)))
        rc2, names = L.loop_get_names(handle)
        if rc2 != CIF_OK:
            self.problems.append(('handle:%s:get_names:%d' % (kind, rc2), 'cif_loop_get_names in %s -> %d' % (kind, rc2)))
            names = []
        return (cat, tuple(names))

    def _pkt(self, kind, handle):
        if not handle:
            return None
        rc, names = self.L.packet_names(handle)
        if rc != CIF_OK:
            self.problems.append(('handle:%s:packet_names:%d' % (kind, rc), 'cif_packet_get_names in %s -> %d' % (kind, rc)))
            return None
        return tuple(names)


def walk(L, cif, program=None, query=True, answer_fn=None, omit=()):
    rec = Recorder(L, program, query, answer_fn=answer_fn, omit=omit)
    rc = L.call('cif_walk', cif, C.byref(rec.handler), None)
    return rc, rec
