"""C13 - CIF 1.1 output is pure CIF 1.1 and round-trips, or is refused.

As C02 with cif_version = 1: CIFs over the CIF 1.1 character set with strings mixing quotes followed / not followed by
blanks, semicolons after newlines, backslashes at line ends and empty lines - and "poisoned" CIFs holding exactly one
thing CIF 1.1 cannot express (a list, a table, a string containing newline-semicolon, a character outside the
CIF 1.1 set in a code, name or value).  The outcome is classified against an independent expressibility rule:
success on a poisoned CIF, DISALLOWED_VALUE / DISALLOWED_CHAR without the corresponding poison, or any other failure
code is a violation; on success the output must start with the 1.1 version comment, consist solely of CIF 1.1
characters in lines of at most 2048, and re-parse as CIF 1.1 (folding and prefix decoding enabled) without error to
an equivalent CIF."""
from .. import cifbuild as B
from .. import dump as D
from .. import gen_cif as GC
from ..lib import *      # noqa: F401,F403
from ..monitors import LedgerScope
from .C02 import check_output, doc_names

MODULE = __name__


def doc_codes(doc):
    def rec(blk):
        yield blk['code']
        for e in blk['entries']:
            if e[0] == 'frame':
                for c in rec(e[1]):
                    yield c
    for b in doc:
        for c in rec(b):
            yield c


def value_poison(v):
    """(poisonV, poisonC) of one value"""
    if v[0] in ('list', 'table'):
        return True, False
    if v[0] in ('char', 'numb'):
        return ('\n;' in v[1]), (not GC.text_ok(v[1], 1))
    return False, False


def classify(doc):
    pv = pc = False
    for v in B.doc_values(doc):
        a, b = value_poison(v)
        pv = pv or a
        pc = pc or b
    for s in list(doc_names(doc)) + list(doc_codes(doc)):
        if not GC.text_ok(s, 1) or '\n' in s or '\t' in s:
            pc = True
    return pv, pc


def poison(rng, doc):
    """plants exactly one inexpressible thing; returns its label"""
    kind = rng.choice(['list', 'table', 'nlsemi', 'char-value', 'char-name', 'char-code', 'del-value', 'vt-value',
                       'char-loop-name', 'char-loop-name', 'char-frame-code', 'char-loop-value', 'list-in-loop', 'table-in-loop',
                       'nlsemi-in-loop', 'del-in-loop'])
    blk = rng.choice(doc)
    if kind == 'list':
        blk['entries'].append(('item', '_poison', ('list', (('char', 'a', False),))))
    elif kind == 'table':
        blk['entries'].append(('item', '_poison', ('table', (('k', ('unk',)),))))
    elif kind == 'nlsemi':
        blk['entries'].append(('item', '_poison', ('char', rng.choice(['a\n;b', '\n;', 'x\n;\n;y', 'l1\nl2\n;l3']), True)))
    elif kind == 'char-value':
        blk['entries'].append(('item', '_poison', ('char', rng.choice(['\u00e9', 'a\u20acb', 'x\U0001f600', '\u00a0']), True)))
    elif kind == 'char-name':
        blk['entries'].append(('item', '_pois\u00f6n', ('char', 'v', False)))
    elif kind == 'char-code':
        doc.append({'code': 'bl\u00f6ck', 'entries': [('item', '_a', ('char', 'v', False))]})
    elif kind == 'char-loop-name':
        # the offending name at every position of a loop header
        n = rng.randint(2, 4)
        names = ['_lp%d_%d' % (len(blk['entries']), j) for j in range(n)]
        names[rng.randrange(n)] = '_lp%d_\u00e9tiquette' % len(blk['entries'])
        blk['entries'].append(('loop', names, [[('char', 'v%d%d' % (r, c), True) for c in range(n)] for r in range(rng.randint(1, 3))]))
    elif kind == 'char-frame-code':
        blk['entries'].append(('frame', {'code': 'fr\u00e4me', 'entries': [('item', '_a', ('char', 'v', False))]}))
    elif kind == 'char-loop-value':
        blk['entries'].append(('loop', ['_lq1', '_lq2'], [[('char', 'ok', True), ('char', 'na\u00efve', True)], [('char', 'x', True), ('char', 'y', True)]]))
    elif kind in ('list-in-loop', 'table-in-loop', 'nlsemi-in-loop', 'del-in-loop'):
        # the inexpressible value as a loop cell, in the first, a middle or the last packet and column
        bad = {'list-in-loop': ('list', (('char', 'a', False), ('char', 'b c', True))), 'table-in-loop': ('table', (('k', ('numb', '1', False)),)),
               'nlsemi-in-loop': ('char', 'a\n;b\nc', True), 'del-in-loop': ('char', 'a\x7fb', True)}[kind]
        n, m = rng.randint(1, 3), rng.randint(1, 3)
        rows = [[('char', 'v%d%d' % (r, c), True) for c in range(n)] for r in range(m)]
        rows[rng.randrange(m)][rng.randrange(n)] = bad
        blk['entries'].append(('loop', ['_lr%d_%d' % (len(blk['entries']), j) for j in range(n)], rows))
    elif kind == 'del-value':
        blk['entries'].append(('item', '_poison', ('char', 'a\x7fb', True)))
    else:
        blk['entries'].append(('item', '_poison', ('char', 'a\x0bb', True)))
    return kind


FILL_FIRST1 = [('char', 'abc', False), ('char', 'a b', True), ('char', "a'b c", True), ('char', 'a\'b "c', True), ('numb', '1.50(3)', False),
               ('char', 'x\ny', True), ('unk',), ('char', 'say "hi" it\'s', True)]
NFILL1 = len(FILL_FIRST1) * 64 * 2


def fill_probe_doc1(j):
    """CIF 1.1 line-fill probes (see C02.fill_probe_doc): loop packets are the only place where values share a line"""
    order = j % 2
    j //= 2
    first = FILL_FIRST1[j % len(FILL_FIRST1)]
    n = 1985 + (j // len(FILL_FIRST1)) % 64
    filler = ('char', 'f' * n, False) if n % 2 else ('char', 'f' * (n - 2) + ' g', True)
    rows = [[first, filler, first], [filler, first, first]] if order else [[('char', 'h', False), first, filler], [first, first, filler]]
    return [{'code': 'fill', 'entries': [('loop', ['_a', '_b', '_c'], rows)]}]


def _run_case_body(ctx, L, i, scope):
    rng = ctx.rng('C13', i)
    nfill = ctx.params.get('fill_probes', 0)
    label = 'clean'
    if i < nfill:
        doc = fill_probe_doc1(i)
        label = 'fill'
        ctx.count('fill_probes')
    elif i % 5 == 3:
        from .C02 import delimiter_stress_doc
        doc = delimiter_stress_doc(rng)
        label = 'stress'
        ctx.count('delimiter_stress_documents')
    else:
        doc = B.writer_doc(rng, ascii_only=True, big=False)
        if i % 4 == 0:
            label = poison(rng, doc)
    pv, pc = classify(doc)
    info = dict(index=i, kind=label, poison_value=pv, poison_char=pc)
    if i % 53 == 0:
        ctx.sample(info, 4)
    cif = None
    try:
        cif = B.build_cif(L, doc)
        orig_eq = B.eq_dump(D.dump(L, cif))
        rc, data = L.write_bytes(cif, 1)
        ctx.add('outcomes', '%s:%d' % (label, rc))
        if rc == CIF_OK:
            if check_output(ctx, L, data, 1, info, orig_eq, B.has_nested_frames(doc)):
                # a poisoned CIF that nevertheless round-trips (e.g. through the prefix protocol) is fine
                ctx.count('round_trips_ok')
                if pv or pc:
                    ctx.count('poisoned_but_round_tripped')
            return
        if rc == CIF_DISALLOWED_VALUE:
            if not pv:
                ctx.violation('write11:rc:62:without-inexpressible-value', 'CIF_DISALLOWED_VALUE although the CIF holds no list, table or string with newline-semicolon', info)
            else:
                ctx.count('refused_value')
            return
        if rc == CIF_DISALLOWED_CHAR:
            if not pc:
                ctx.violation('write11:rc:104:without-disallowed-char', 'CIF_DISALLOWED_CHAR although every code, name and string is within the CIF 1.1 character set', info)
            else:
                ctx.count('refused_char')
            return
        longest = max([len(n) for n in doc_names(doc)] or [0])
        pre = ':name-over-2000-chars' if longest > 2000 else ''
        ctx.violation('write11:rc:%d%s' % (rc, pre), 'cif_write (CIF 1.1 mode) failed with %d (longest data name %d characters)' % (rc, longest), info)
    except B.BuildError as e:
        ctx.inconclusive('cannot build the CIF for case %d: %s' % (i, e))
    finally:
        if cif:
            L.destroy(cif)
    ctx.drain_events(info)



def run_case(ctx, L, i):
    """the ledger is audited on every path out of the case, refusals included"""
    scope = LedgerScope(L).__enter__()
    try:
        _run_case_body(ctx, L, i, scope)
    finally:
        for suffix, detail in scope.finish():
            ctx.violation(suffix, detail, dict(index=i))

def worker(ctx):
    L = ctx.L
    n = ctx.params['cifs']
    if ctx.params.get('_single') is not None:
        ctx.single = ctx.params['_single']
    for i in ctx.cases(n):
        ctx.begin(i)
        ctx.count('cifs')
        run_case(ctx, L, i)


def run(env):
    n = (6000 if env.quick else 60000) + NFILL1
    res = env.run_pool(MODULE, dict(cifs=n, fill_probes=NFILL1), nshards=16, case_timeout=300, total_timeout=3000 if env.quick else 30000)
    inconclusive = list(res.inconclusive)
    if res.count('cifs') < n and not res.violations:
        inconclusive.append('only %d of %d CIFs ran' % (res.count('cifs'), n))
    return dict(
        level='exploration',
        coverage=dict(
            evaluations=res.count('cifs'), distinct_nontrivial=res.count('round_trips_ok') + res.count('refused_value') + res.count('refused_char'),
            rule='one evaluation = one CIF over the CIF 1.1 character set (every fourth with exactly one planted '
                 'inexpressible element) written with cif_version = 1; distinct by per-index PRNG; non-trivial = the '
                 'outcome class (round trip / DISALLOWED_VALUE / DISALLOWED_CHAR) agreed with the independent '
                 'expressibility rule and, on success, all output checks passed',
            samples=res.samples, systematic_line_fill_probes=res.count('fill_probes'),
            delimiter_stress_documents=res.count('delimiter_stress_documents'), round_trips=res.count('round_trips_ok'), refused_value=res.count('refused_value'),
            refused_char=res.count('refused_char'), poisoned_but_round_tripped=res.count('poisoned_but_round_tripped'),
            outcomes=sorted(res.sets.get('outcomes', ())), crashes=res.crashes),
        violations=res.violations, inconclusive=inconclusive,
        assumptions=['a string containing newline-semicolon counts as inexpressible unless the output round-trips anyway'])


def replay(env, rec):
    env.single = (rec.get('case') or {}).get('index')
    return run(env)
