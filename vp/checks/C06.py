"""C06 - packet iterators deliver each packet once; close commits, abort reverts.

Bounded-exhaustive: for each loop shape (1-3 packets x 1-3 items, the scalar loop, a loop with partially filled
packets) every script over {next (fresh packet), next (reuse a caller packet that holds extra items), next (NULL
sink), update (subset of items), update (with a foreign item), update (empty packet), remove} up to the tier's length,
each finished by close and by abort, is run against a small state-machine model.  Packets are made unambiguous by
unique values, so every delivered value identifies the stored cell it came from."""
import itertools

from .. import dump as D
from ..lib import *      # noqa: F401,F403
from ..monitors import LedgerScope

MODULE = __name__

ALPHABET = 'NRZUFEX'
SHAPES = [(1, 1), (1, 2), (1, 3), (2, 1), (2, 2), (2, 3), (3, 1), (3, 2), (3, 3), ('scalar', 2), ('partial', 3)]
UNK = ('unk',)
# loops wide enough for the packets' and the loop's internal name tables to grow several times
WIDE_WIDTHS = [330, 400, 700, 1400]
WIDE_SCRIPTS = ['NN', 'NUN', 'RUR', 'NXN', 'NRZ', 'NUNU', 'ZN', 'NEN', 'NFN']
WIDE_CASES = [(w, sc, fin) for w in WIDE_WIDTHS for sc in WIDE_SCRIPTS for fin in ('close', 'abort')]


class Mismatch(Exception):
    def __init__(self, key, detail):
        Exception.__init__(self, detail)
        self.key = key
        self.detail = detail


def scripts_upto(n):
    for k in range(0, n + 1):
        for t in itertools.product(ALPHABET, repeat=k):
            yield ''.join(t)


def case_space(maxlen):
    """(shape index, script, finish) in a fixed order"""
    per_shape = sum(len(ALPHABET) ** k for k in range(0, maxlen + 1)) * 2
    return per_shape * len(SHAPES), per_shape


def decode_case(idx, maxlen):
    total, per_shape = case_space(maxlen)
    si, r = divmod(idx, per_shape)
    fin = 'close' if r % 2 == 0 else 'abort'
    r //= 2
    # r-th script in length-lexicographic order
    k = 0
    while r >= len(ALPHABET) ** k:
        r -= len(ALPHABET) ** k
        k += 1
    s = []
    for _ in range(k):
        r, d = divmod(r, len(ALPHABET))
        s.append(ALPHABET[d])
    return SHAPES[si], ''.join(reversed(s)), fin


class Fixture:
    def __init__(self, L, shape, serial):
        self.L = L
        rc, self.cif = L.create()
        rc, self.b = L.create_block(self.cif, 'b')
        npk, nit = shape
        self.names = ['_i%d' % j for j in range(nit)]
        if serial % 7 == 3:
            # a data name at the length limit (2048 characters; block and frame codes end at 2043): 2044 .. 2048
            self.names[-1] = self.names[-1] + 'w' * (2044 + (serial // 7) % 5 - len(self.names[-1]))
        self.norms = list(self.names)
        if npk == 'scalar':
            self.cat = ''
            self.packets = [dict((n, ('char', 'p1_%s_%d' % (n, serial), True)) for n in self.names)]
            for n in self.names:
                v = L.make_value(self.packets[0][n])
                rc = L.set_value(self.b, n, v)
                L.value_free(v)
                if rc != CIF_OK:
                    raise Mismatch('fixture:set_value:%d' % rc, 'fixture')
            rc, self.loop = L.get_category_loop(self.b, '')
        else:
            self.cat = 'c' if (serial // 2) % 2 == 0 else None  # (most loops of real CIFs bear none; serial's parity is close / abort)
            rc, self.loop = L.create_loop(self.b, self.cat, self.names)
            if rc != CIF_OK:
                raise Mismatch('fixture:create_loop:%d' % rc, 'fixture')
            n = 3 if npk == 'partial' else npk
            self.packets = []
            for r in range(n):
                if npk == 'partial':
                    use = self.names[:1 + (r % nit)] if r != 1 else self.names[1:2]
                else:
                    use = self.names
                pk = dict((nm, ('char', 'p%d_%s_%d' % (r + 1, nm, serial), True)) for nm in use)
                rc, p = L.packet_create(use)
                for nm in use:
                    v = L.make_value(pk[nm])
                    L.packet_set(p, nm, v)
                    L.value_free(v)
                rc = L.loop_add_packet(self.loop, p)
                L.packet_free(p)
                if rc != CIF_OK:
                    raise Mismatch('fixture:add_packet:%d' % rc, 'fixture')
                self.packets.append(pk)
        # bystanders: another block and a save frame of it hold loops of the very same item names and as many packets
        # (so their packets bear the same internal numbers); nothing done through the iterator may touch them
        rc, self.b2 = L.create_block(self.cif, 'bystander')
        rc, self.f2 = L.create_frame(self.b2, 'fr')
        for cont, tag in ((self.b2, 'B'), (self.f2, 'F')):
            if npk == 'scalar':
                for n in self.names:
                    v = L.make_value(('char', '%s1_%s_%d' % (tag, n, serial), True))
                    rc = L.set_value(cont, n, v)
                    L.value_free(v)
                    if rc != CIF_OK:
                        raise Mismatch('fixture:set_value(bystander):%d' % rc, 'fixture')
            else:
                rc, lx = L.create_loop(cont, 'c', self.names)
                if rc != CIF_OK:
                    raise Mismatch('fixture:create_loop(bystander):%d' % rc, 'fixture')
                for r in range(len(self.packets)):
                    rc, p = L.packet_create(self.names)
                    for nm in self.names:
                        v = L.make_value(('char', '%s%d_%s_%d' % (tag, r + 1, nm, serial), True))
                        L.packet_set(p, nm, v)
                        L.value_free(v)
                    rc = L.loop_add_packet(lx, p)
                    L.packet_free(p)
                    if rc != CIF_OK:
                        raise Mismatch('fixture:add_packet(bystander):%d' % rc, 'fixture')
                L.loop_free(lx)
        self.bystanders0 = self.bystanders()
        # a second loop supplies the "foreign" item
        rc, l2 = L.create_loop(self.b, 'other', ['_foreign'])
        rc, p = L.packet_create(['_foreign'])
        L.loop_add_packet(l2, p)
        L.packet_free(p)
        L.loop_free(l2)

    def full(self, pk):
        return dict((n, pk.get(n, UNK)) for n in self.names)

    def content(self):
        """loop content through a dump (names normalised already)"""
        d = D.dump_loop(self.L, self.loop)
        return sorted(d[2], key=repr)

    def bystanders(self):
        return D.dump_container(self.L, self.b2)

    def release(self):
        L = self.L
        if self.loop:
            L.loop_free(self.loop)
        L.container_free(self.b)
        if getattr(self, 'f2', None):
            L.container_free(self.f2)
        if getattr(self, 'b2', None):
            L.container_free(self.b2)
        L.destroy(self.cif)


def model_content(names, packets):
    return sorted((tuple(sorted((n, p.get(n, UNK)) for n in names)) for p in packets), key=repr)


def run_script(ctx, L, shape, script, fin, serial):
    fx = Fixture(L, shape, serial)
    try:
        initial = [dict(p) for p in fx.packets]
        got0 = fx.content()
        if got0 != model_content(fx.names, initial):
            raise Mismatch('fixture:content', 'fixture content differs from what was stored')
        rc, it = L.loop_get_packets(fx.loop)
        if rc != CIF_OK:
            raise Mismatch('model:cif_loop_get_packets:0:%d' % rc, 'get_packets on a loop with packets -> %d' % rc)
        if L.in_transaction(fx.cif) != 1:
            raise Mismatch('autocommit:cif_loop_get_packets:no-transaction', 'no transaction is open while iterating')
        state = 'NEW'
        live = [dict(p) for p in initial]          # current loop content
        remaining = list(live)                      # not yet delivered (the same dict objects as in live)
        cur = None                                  # index into live of the packet most recently delivered
        reuse_pk = None
        useq = 0
        trace = []
        try:
            for step, op in enumerate(script):
                if op in 'NRZ':
                    if op == 'R':
                        if reuse_pk is None:
                            rc, reuse_pk = L.packet_create(['_extra', fx.names[0]])
                            v = L.make_value(('char', 'junk', True))
                            L.packet_set(reuse_pk, '_extra', v)
                            L.packet_set(reuse_pk, fx.names[0], v)
                            L.value_free(v)
                        else:
                            v = L.make_value(('list', (('char', 'again', True),)))
                            L.packet_set(reuse_pk, '_Extra2', v)
                            L.value_free(v)
                        rc, pk = L.it_next(it, 'reuse', reuse_pk)
                        if pk != reuse_pk:
                            raise Mismatch('state:next_packet:pointer', 'the caller\'s packet pointer was replaced')
                    elif op == 'N':
                        rc, pk = L.it_next(it, 'new')
                    else:
                        rc, pk = L.it_next(it, 'null')
                    trace.append('%s=%d' % (op, rc))
                    ctx.add('transitions', '%s:%s:%d' % (state, op, rc))
                    if not remaining:
                        if rc != CIF_FINISHED:
                            raise Mismatch('model:cif_pktitr_next_packet:1:%d:exhausted' % rc,
                                           'next after all packets were delivered -> %d (script %s)' % (rc, script))
                        state = 'FINISHED'
                        if op == 'N' and pk:
                            L.packet_free(pk)
                        continue
                    if rc != CIF_OK:
                        raise Mismatch('model:cif_pktitr_next_packet:0:%d:%s' % (rc, state),
                                       'next with %d packet(s) outstanding -> %d (script %s)' % (len(remaining), rc, script))
                    if op == 'Z':
                        # nothing observed: any one of the outstanding packets was consumed; resolve lazily
                        # (unique values let a later observation disambiguate; we simply require order of storage)
                        delivered = remaining[0]
                    else:
                        rc2, pn = L.packet_names(pk)
                        gotp = dict((n, L.read_value(L.packet_get(pk, n)[1])) for n in pn)
                        if op == 'N':
                            L.packet_free(pk)
                        if sorted(gotp) != sorted(fx.names):
                            raise Mismatch('state:next_packet:items', 'delivered items %r, loop items %r (script %s)' % (sorted(gotp), fx.names, script))
                        delivered = None
                        for cand in remaining:
                            if fx.full(cand) == gotp:
                                delivered = cand
                                break
                        if delivered is None:
                            raise Mismatch('state:next_packet:content', 'delivered packet %s is not an outstanding packet of the loop (script %s)' % (D._short(gotp), script))
                    remaining.remove(delivered)
                    cur = delivered
                    state = 'ITERATED'
                    ctx.count('packets_delivered')
                elif op in 'UFE':
                    useq += 1
                    if op == 'E':
                        names = []
                    elif op == 'F':
                        names = ['_foreign'] + fx.names[:1] if useq % 2 else fx.names[:1] + ['_foreign']
                    else:
                        k = 1 + (useq % len(fx.names))
                        names = fx.names[:k] if useq % 3 else fx.names[-k:]
                    rc, upk = L.packet_create(names)
                    newvals = {}
                    for j, n in enumerate(names):
                        pv = ('char', 'u%d_%s_%d' % (useq, n, serial), bool(useq % 2))
                        if not pv[2]:
                            pv = ('char', 'u%d%s%d' % (useq, n, serial), False)
                        # an update is also how a stored value is replaced by the unknown / not-applicable value
                        r = (useq + j + serial) % 6
                        if op == 'U' and r == 0:
                            pv = ('unk',)
                        elif op == 'U' and r == 1:
                            pv = ('na',)
                        elif op == 'U' and r == 2:
                            pv = ('numb', '%d.5(2)' % (useq + serial % 1000), False)
                        newvals[n] = pv
                        v = L.make_value(pv)
                        L.packet_set(upk, n, v)
                        L.value_free(v)
                    rc = L.it_update(it, upk)
                    L.packet_free(upk)
                    trace.append('%s=%d' % (op, rc))
                    ctx.add('transitions', '%s:%s:%d' % (state, op, rc))
                    has_current = state == 'ITERATED'
                    if state == 'FINISHED':
                        # may be refused, or act on the last delivered, still existing packet (DESIGN.md section 5)
                        if cur is not None and cur in live:
                            allowed = {CIF_MISUSE, CIF_OK, CIF_WRONG_LOOP} if op == 'F' else {CIF_MISUSE, CIF_OK}
                            if rc not in allowed:
                                raise Mismatch('model:cif_pktitr_update_packet:%s:%d:FINISHED' % ('|'.join(map(str, sorted(allowed))), rc), 'update after FINISHED -> %d (script %s)' % (rc, script))
                            if rc == CIF_OK:
                                if op == 'F':
                                    raise Mismatch('model:cif_pktitr_update_packet:35:0:foreign', 'update with a foreign item succeeded (script %s)' % script)
                                for n in names:
                                    cur[n] = newvals[n]
                            continue
                        has_current = False
                    if not has_current:
                        if rc != CIF_MISUSE:
                            raise Mismatch('model:cif_pktitr_update_packet:7:%d:%s' % (rc, state), 'update without a current packet (%s) -> %d (script %s)' % (state, rc, script))
                        continue
                    if op == 'F':
                        if rc != CIF_WRONG_LOOP:
                            raise Mismatch('model:cif_pktitr_update_packet:35:%d:foreign' % rc, 'update with a foreign item -> %d (script %s)' % (rc, script))
                        continue
                    if rc != CIF_OK:
                        raise Mismatch('model:cif_pktitr_update_packet:0:%d:ITERATED' % rc, 'update of the current packet -> %d (script %s)' % (rc, script))
                    for n in names:
                        cur[n] = newvals[n]
                    ctx.count('updates')
                else:   # X remove
                    rc = L.it_remove(it)
                    trace.append('X=%d' % rc)
                    ctx.add('transitions', '%s:X:%d' % (state, rc))
                    if state == 'ITERATED':
                        if rc != CIF_OK:
                            raise Mismatch('model:cif_pktitr_remove_packet:0:%d:ITERATED' % rc, 'remove of the current packet -> %d (script %s)' % (rc, script))
                        live.remove(cur)
                        state = 'REMOVED'
                        ctx.count('removals')
                    elif state == 'FINISHED' and cur is not None and cur in live:
                        if rc not in (CIF_MISUSE, CIF_OK):
                            raise Mismatch('model:cif_pktitr_remove_packet:0|7:%d:FINISHED' % rc, 'remove after FINISHED -> %d (script %s)' % (rc, script))
                        if rc == CIF_OK:
                            live.remove(cur)
                    else:
                        if rc != CIF_MISUSE:
                            raise Mismatch('model:cif_pktitr_remove_packet:7:%d:%s' % (rc, state), 'remove without a current packet (%s) -> %d (script %s)' % (state, rc, script))
        finally:
            if reuse_pk:
                L.packet_free(reuse_pk)
            rc = L.it_close(it) if fin == 'close' else L.it_abort(it)
        if rc != CIF_OK:
            raise Mismatch('model:cif_pktitr_%s:0:%d' % (fin, rc), '%s -> %d (script %s)' % (fin, rc, script))
        if L.in_transaction(fx.cif) != 0:
            raise Mismatch('autocommit:cif_pktitr_%s' % fin, 'a transaction is still open after %s' % fin)
        want = model_content(fx.names, live if fin == 'close' else initial)
        # a loop emptied through the iterator stays (packet-less) but must then answer CIF_EMPTY_LOOP
        got = fx.content()
        if got != want:
            raise Mismatch('state:after-%s:content' % fin,
                           'after script %s + %s the loop holds %s; expected %s' % (script, fin, D._short(got, 300), D._short(want, 300)))
        by = fx.bystanders()
        if by != fx.bystanders0:
            raise Mismatch('state:after-%s:bystander-containers' % fin,
                           'after script %s + %s another data block / save frame with a loop of the same item names changed: %s'
                           % (script, fin, D.first_difference(by, fx.bystanders0)))
        ctx.count('bystander_comparisons')
        if not want:
            rc, it2 = L.loop_get_packets(fx.loop)
            if rc != CIF_EMPTY_LOOP:
                if rc == CIF_OK:
                    L.it_abort(it2)
                raise Mismatch('model:cif_loop_get_packets:36:%d' % rc, 'get_packets on the emptied loop -> %d' % rc)
            ctx.count('emptied_loops')
        # the CIF is free for ordinary (transactional) operations again
        v = L.make_value(('char', 'after', True))
        rc = L.set_value(fx.b, '_after_iteration', v)
        L.value_free(v)
        if rc != CIF_OK:
            raise Mismatch('model:cif_container_set_value:0:%d:after-iterator' % rc, 'set_value after %s -> %d' % (fin, rc))
        if shape[0] != 'scalar':
            # ... and so is the loop: it takes a new packet, next to exactly the packets it is supposed to hold
            newpk = dict((nm, ('char', 'added-after-%s_%s_%d' % (fin, nm, serial), True)) for nm in fx.names)
            rc, p = L.packet_create(fx.names)
            for nm in fx.names:
                v = L.make_value(newpk[nm])
                L.packet_set(p, nm, v)
                L.value_free(v)
            rc = L.loop_add_packet(fx.loop, p)
            L.packet_free(p)
            if rc != CIF_OK:
                raise Mismatch('model:cif_loop_add_packet:0:%d:after-iterator' % rc, 'adding a packet to the loop after script %s + %s -> %d' % (script, fin, rc))
            want2 = model_content(fx.names, (live if fin == 'close' else initial) + [newpk])
            got2 = fx.content()
            if got2 != want2:
                raise Mismatch('state:after-%s:content-after-add' % fin,
                               'after script %s + %s and one added packet the loop holds %s; expected %s' % (script, fin, D._short(got2, 300), D._short(want2, 300)))
            ctx.count('packets_added_after_iteration')
        ctx.add('final_states', '%s/%d' % (state, len(want)))
    finally:
        fx.release()


def extras(ctx, L):
    """cases outside the script space: empty loop, destroyed loop, two loops iterated in turn, re-adding after
    removing every packet"""
    rc, cif = L.create()
    rc, b = L.create_block(cif, 'b')
    try:
        rc, lp = L.create_loop(b, 'e', ['_e1', '_e2'])
        rc, it = L.loop_get_packets(lp)
        if rc != CIF_EMPTY_LOOP:
            if rc == CIF_OK:
                L.it_abort(it)
            raise Mismatch('model:cif_loop_get_packets:36:%d' % rc, 'get_packets on a new, empty loop -> %d' % rc)
        rc, lp2 = L.get_item_loop(b, '_E1')
        rc = L.loop_destroy(lp2)
        rc, it = L.loop_get_packets(lp)
        if rc != CIF_INVALID_HANDLE:
            if rc == CIF_OK:
                L.it_abort(it)
            raise Mismatch('model:cif_loop_get_packets:4:%d' % rc, 'get_packets on a destroyed loop -> %d' % rc)
        L.loop_free(lp)
        if L.in_transaction(cif) != 0:
            raise Mismatch('autocommit:cif_loop_get_packets:failed', 'transaction left open by a refused get_packets')
        # two loops iterated one after the other, all packets removed from the first, then re-added
        loops = []
        for tag in ('x', 'y'):
            rc, l = L.create_loop(b, tag, ['_%s1' % tag])
            for r in range(3):
                rc, p = L.packet_create(['_%s1' % tag])
                v = L.make_value(('char', '%s%d' % (tag, r), True))
                L.packet_set(p, '_%s1' % tag, v)
                L.value_free(v)
                rc = L.loop_add_packet(l, p)
                L.packet_free(p)
            loops.append(l)
        rc, it = L.loop_get_packets(loops[0])
        n = 0
        while L.it_next(it, 'null')[0] == CIF_OK:
            if L.it_remove(it) != CIF_OK:
                raise Mismatch('model:cif_pktitr_remove_packet:0:x:all', 'removing every packet failed')
            n += 1
        rc = L.it_close(it)
        if n != 3 or rc != CIF_OK:
            raise Mismatch('state:remove-all:count', 'removed %d packets, close -> %d' % (n, rc))
        rc, it = L.loop_get_packets(loops[1])
        seen = []
        while True:
            rc, pk = L.it_next(it, 'new')
            if rc != CIF_OK:
                break
            seen.append(L.read_value(L.packet_get(pk, '_y1')[1])[1])
            L.packet_free(pk)
        L.it_close(it)
        if sorted(seen) != ['y0', 'y1', 'y2'] or rc != CIF_FINISHED:
            raise Mismatch('state:second-loop:content', 'second loop delivered %r then %d' % (seen, rc))
        rc, p = L.packet_create(['_x1'])
        rc = L.loop_add_packet(loops[0], p)
        L.packet_free(p)
        if rc != CIF_OK:
            raise Mismatch('model:cif_loop_add_packet:0:%d:after-remove-all' % rc, 're-adding to the emptied loop -> %d' % rc)
        # an iterator with a pending update survives refused requests made meanwhile: a second iterator (on another
        # loop, on a loop without packets, through a stale handle) and a look at another loop's names
        rc, le = L.create_loop(b, 'empty2', ['_q1'])
        rc, lz = L.create_loop(b, 'z', ['_z1'])
        rc, lz2 = L.get_item_loop(b, '_z1')
        L.loop_destroy(lz2)
        for fin in ('close', 'abort'):
            rc, it = L.loop_get_packets(loops[1])
            rc, pk = L.it_next(it, 'new')
            v = L.make_value(('char', 'pending-' + fin, True))
            L.packet_set(pk, '_y1', v)
            L.value_free(v)
            rc = L.it_update(it, pk)
            L.packet_free(pk)
            if rc != CIF_OK:
                raise Mismatch('model:cif_pktitr_update_packet:0:%d:ITERATED' % rc, 'update -> %d' % rc)
            for what, lh, okset in (('another loop', loops[0], (CIF_ERROR,)), ('a loop without packets', le, (CIF_ERROR, CIF_EMPTY_LOOP)),
                                    ('a stale loop handle', lz, (CIF_ERROR, CIF_INVALID_HANDLE))):
                rc, it2 = L.loop_get_packets(lh)
                if rc == CIF_OK:
                    L.it_close(it2)
                    ctx.count('second_iterators_granted')
                elif rc not in okset:
                    raise Mismatch('model:cif_loop_get_packets:second-iterator:%d' % rc, 'request for an iterator on %s while one is open -> %d' % (what, rc))
                if L.in_transaction(cif) != 1:
                    raise Mismatch('autocommit:cif_loop_get_packets:enclosing-transaction-lost', 'a refused request for an iterator on %s ended the open iterator\'s transaction' % what)
            rc, nm = L.loop_get_names(loops[0])
            if rc != CIF_OK or L.in_transaction(cif) != 1:
                raise Mismatch('autocommit:cif_loop_get_names:enclosing-transaction-lost', 'cif_loop_get_names on another loop while an iterator is open -> %d, transaction open: %d' % (rc, L.in_transaction(cif)))
            rc1 = L.it_next(it, 'null')[0]
            rc2 = L.it_close(it) if fin == 'close' else L.it_abort(it)
            if (rc1, rc2) != (CIF_OK, CIF_OK):
                raise Mismatch('model:cif_pktitr_%s:0:%d/%d:after-refused-requests' % (fin, rc1, rc2), 'after refused requests made meanwhile: next -> %d, %s -> %d' % (rc1, fin, rc2))
            got = sorted(pk[0][1][1] for pk in D.dump_loop(L, loops[1])[2])
            want = sorted(['pending-close', 'y1', 'y2']) if fin == 'close' else sorted(['pending-close', 'y1', 'y2'])
            if got != want:
                raise Mismatch('state:after-%s:content:after-refused-requests' % fin, 'loop holds %r, expected %r' % (got, want))
        L.loop_free(le)
        L.loop_free(lz)
        for l in loops:
            L.loop_free(l)
        ctx.count('extra_cases', 6)
    finally:
        L.container_free(b)
        L.destroy(cif)


def worker(ctx):
    L = ctx.L
    maxlen = ctx.params['maxlen']
    total, per_shape = case_space(maxlen)
    budget = ctx.params['budget']
    if ctx.params.get('_single') is not None:
        ctx.single = ctx.params['_single']
    # choose the cases: everything when the space fits the budget, else an evenly spread deterministic sample that
    # always contains every script up to length 3
    short_total, short_per = case_space(3)
    if total <= budget:
        chosen = range(total)
    else:
        rng = ctx.rng('C06-sample')
        chosen_set = set()
        for si in range(len(SHAPES)):
            for r in range(short_per):
                chosen_set.add(si * per_shape + r)
        while len(chosen_set) < budget:
            chosen_set.add(rng.randrange(total))
        chosen = sorted(chosen_set)
    nchosen = len(chosen)
    scope = LedgerScope(L).__enter__()
    first = True
    for k in ctx.cases(nchosen):
        idx = chosen[k]
        shape, script, fin = decode_case(idx, maxlen)
        ctx.begin(k, dict(case=idx, shape=shape, script=script, finish=fin))
        ctx.count('scripts')
        info = dict(index=k, case=idx, shape=list(shape), script=script, finish=fin)
        try:
            run_script(ctx, L, shape, script, fin, idx)
            ctx.count('scripts_completed')
            ctx.add('shapes', str(shape))
        except Mismatch as m:
            ctx.violation(m.key, m.detail, info)
        except D.DumpError as e:
            # the reference reading of a loop goes through an iterator of its own: if none can be had for a loop that
            # exists, its packets cannot be delivered at all
            ctx.violation('dump:%s:%d' % (e.fn, e.rc), 'reading the loop back: %s' % e, info)
        if ctx.drain_events(info):
            pass
        wide_step = max(1, nchosen // len(WIDE_CASES))
        if k % wide_step == 7 % wide_step and k // wide_step < len(WIDE_CASES):
            w, wscript, wfin = WIDE_CASES[k // wide_step]
            winfo = dict(index=k, wide=True, shape=[2, w], script=wscript, finish=wfin)
            ctx.count('wide_loop_scripts')
            try:
                run_script(ctx, L, (2, w), wscript, wfin, 7000000 + 14 * (k // wide_step))
                ctx.count('wide_loop_scripts_completed')
            except Mismatch as m:
                ctx.violation(m.key + ':wide', m.detail, winfo)
            except D.DumpError as e:
                ctx.violation('dump:%s:%d:wide' % (e.fn, e.rc), 'reading the loop back: %s' % e, winfo)
            ctx.drain_events(winfo)
        if first:
            first = False
            try:
                extras(ctx, L)
            except Mismatch as m:
                ctx.violation(m.key, m.detail, dict(index=k, extra=True))
        if k % 400 == 0:
            for suffix, detail in scope.finish():
                ctx.violation(suffix, detail, info)
            scope = LedgerScope(L).__enter__()
        ctx.sample(info, 3)
    for suffix, detail in scope.finish():
        ctx.violation(suffix, detail, dict(index=-1))


def run(env):
    maxlen = 5 if env.quick else 6
    budget = 25000 if env.quick else 10 ** 9
    total, per_shape = case_space(maxlen)
    res = env.run_pool(MODULE, dict(maxlen=maxlen, budget=budget), nshards=16, total_timeout=3000 if env.quick else 20000)
    n = min(total, budget)
    inconclusive = list(res.inconclusive)
    if res.count('scripts') < n and not res.violations:
        inconclusive.append('only %d of %d scripts ran' % (res.count('scripts'), n))
    return dict(
        level='exploration',
        coverage=dict(
            evaluations=res.count('scripts'), distinct_nontrivial=res.count('scripts_completed'),
            rule='one evaluation = one (loop shape, script over NRZUFEX, close|abort) triple on a fresh CIF; triples are '
                 'distinct by construction (enumerated by index); counted non-trivial when the script ran to the end '
                 'with every step and the final content compared',
            samples=res.samples, script_space=total, max_script_length=maxlen, exhaustive=(n == total),
            all_scripts_up_to_length_3_included=True, shapes=sorted(res.sets.get('shapes', ())),
            state_transitions_observed=sorted(res.sets.get('transitions', ())),
            final_states=sorted(res.sets.get('final_states', ())), packets_delivered=res.count('packets_delivered'),
            updates=res.count('updates'), removals=res.count('removals'), emptied_loops=res.count('emptied_loops'),
            extra_cases=res.count('extra_cases'),
            wide_loop_scripts_330_to_1400_items=res.count('wide_loop_scripts'),
            wide_loop_scripts_completed=res.count('wide_loop_scripts_completed'), crashes=res.crashes),
        violations=res.violations, inconclusive=inconclusive,
        assumptions=['update/remove after CIF_FINISHED may be refused or act on the last delivered packet (DESIGN.md '
                     'section 5, item 2)', 'packet delivery order is unspecified; a NULL-sink next is assumed to consume '
                     'the packets in storage order'])


def replay(env, rec):
    env.single = (rec.get('case') or {}).get('index')
    return run(env)
