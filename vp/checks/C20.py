"""C20 - every result code has its own correct message in cif_errlist.

Exhaustive over the result codes that the *working tree's* cif.h defines (extracted at run time).  The oracle is a
keyword table written from the documentation comment of each code; the monitor reads the real table of the
instrumented library (under ASan, so an out-of-table read would also be seen)."""
import os
import re

from .. import build

MODULE = __name__

# macro name -> regular expression (case-insensitive) the message must match; written from the doc comments in cif.h
PATTERNS = {
    'CIF_OK': r'no error|success',
    'CIF_FINISHED': r'finish|complete|no more',
    'CIF_ERROR': r'unspecified|general|unknown|unclassified|generic',
    'CIF_MEMORY_ERROR': r'memory|alloc',
    'CIF_INVALID_HANDLE': r'handle',
    'CIF_INTERNAL_ERROR': r'internal',
    'CIF_ARGUMENT_ERROR': r'argument',
    'CIF_MISUSE': r'misuse|improper|not allowed|context',
    'CIF_NOT_SUPPORTED': r'support',
    'CIF_ENVIRONMENT_ERROR': r'environment',
    'CIF_CLIENT_ERROR': r'client|application|user',
    'CIF_DUP_BLOCKCODE': r'duplicate.*block',
    'CIF_INVALID_BLOCKCODE': r'invalid.*block',
    'CIF_NOSUCH_BLOCK': r'no.*block',
    'CIF_DUP_FRAMECODE': r'duplicate.*frame',
    'CIF_INVALID_FRAMECODE': r'invalid.*frame',
    'CIF_NOSUCH_FRAME': r'no.*frame',
    'CIF_CAT_NOT_UNIQUE': r'categor.*(unique|multiple|more than)|(unique|multiple).*categor',
    'CIF_INVALID_CATEGORY': r'categor.*invalid|invalid.*categor',
    'CIF_NOSUCH_LOOP': r'no .*loop|no loop',
    'CIF_RESERVED_LOOP': r'scalar|reserved',
    'CIF_WRONG_LOOP': r'(not|wrong).*loop',
    'CIF_EMPTY_LOOP': r'loop.*(no|without) (data|packets|values)\b(?! names)|empty loop|no packets',
    'CIF_NULL_LOOP': r'loop.*(no|without) (data )?names|no (data|item) names',
    'CIF_DUP_ITEMNAME': r'duplicate.*(item|name)',
    'CIF_INVALID_ITEMNAME': r'invalid.*(item|name)',
    'CIF_NOSUCH_ITEM': r'no item|no such item|not present|absent',
    'CIF_AMBIGUOUS_ITEM': r'ambiguous|only one of|several|multiple',
    'CIF_INVALID_PACKET': r'packet.*(valid|empty)',
    'CIF_PARTIAL_PACKET': r'(too few|partial|incomplete|missing).*(packet|values)',
    'CIF_DISALLOWED_VALUE': r'value|table index|table key',
    'CIF_INVALID_NUMBER': r'number',
    'CIF_INVALID_INDEX': r'index|key',
    'CIF_INVALID_BARE_VALUE': r'bare|unquoted|must be quoted',
    'CIF_INVALID_CHAR': r'invalid.*(char|encod|sequence)',
    'CIF_UNMAPPED_CHAR': r'unmapp|no representation',
    'CIF_DISALLOWED_CHAR': r'not allowed|disallowed',
    'CIF_MISSING_SPACE': r'whitespace|space',
    'CIF_MISSING_ENDQUOTE': r'quote',
    'CIF_UNCLOSED_TEXT': r'(not|un)\s*(terminated|closed)|multi-?line',
    'CIF_OVERLENGTH_LINE': r'line.*(length|long|exceed)|(long|length).*line',
    'CIF_DISALLOWED_INITIAL_CHAR': r'first char|initial char',
    'CIF_WRONG_ENCODING': r'encoding|UTF-8',
    'CIF_NO_BLOCK_HEADER': r'outside any data block|block header|before .*block',
    'CIF_FRAME_NOT_ALLOWED': r'save frame.*(disabled|not allowed|not permitted)',
    'CIF_NO_FRAME_TERM': r'terminator.*missing|missing.*terminator|unterminated',
    'CIF_UNEXPECTED_TERM': r'terminator.*(unexpected|none was expected|not expected)|unexpected.*terminator',
    'CIF_EOF_IN_FRAME': r'end of (the )?(input|file)|EOF',
    'CIF_RESERVED_WORD': r'reserved word',
    'CIF_MISSING_VALUE': r'missing.*value',
    'CIF_UNEXPECTED_VALUE': r'unexpected.*value',
    'CIF_UNEXPECTED_DELIM': r'(misplaced|unexpected).*delimiter',
    'CIF_MISSING_DELIM': r'missing.*delimiter|unterminated',
    'CIF_MISSING_KEY': r'missing.*key|no key',
    'CIF_UNQUOTED_KEY': r'unquoted.*key',
    'CIF_MISQUOTED_KEY': r'text (block|field).*key|misquoted',
    'CIF_NULL_KEY': r'null.*key',
}


def header_codes(repo):
    """(name, value) for every result code macro of the public header's return-code group"""
    text = open(os.path.join(repo, 'src', 'cif.h'), encoding='utf-8', errors='replace').read()
    start = text.find('@defgroup return_codes')
    end = text.find('@defgroup constants')
    if start < 0 or end < 0:
        start, end = 0, len(text)
    group = text[start:end]
    out = []
    for m in re.finditer(r'^[ \t]*#[ \t]*define[ \t]+(CIF_[A-Z0-9_]+)[ \t]+(-?(?:0[xX][0-9a-fA-F]+|\d+))[uUlL]*[ \t]*$', group, re.M):
        name, lit = m.group(1), m.group(2)
        # the value the C compiler gives the literal: a leading 0 makes it octal, 0x hexadecimal
        digits = lit.lstrip('-')
        val = int(digits, 16) if digits[:2].lower() == '0x' else (int(digits, 8) if len(digits) > 1 and digits[0] == '0' and digits.isdigit() and all(c < '8' for c in digits) else int(digits))
        if lit.startswith('-'):
            val = -val
        # commented-out definitions do not count
        pre = group[:m.start()]
        if pre.rfind('/*') > pre.rfind('*/'):
            continue
        if name.startswith('CIF_TRAVERSE_'):
            continue
        out.append((name, val))
    return out


def fallback_pattern(name):
    words = [w.lower() for w in name.split('_')[1:] if len(w) >= 4]
    return '|'.join(re.escape(w[:4]) for w in words) or '.'


def worker(ctx):
    L = ctx.L
    codes = ctx.params['codes']
    nerr = L.vp_nerr()
    ctx.count('nerr', nerr)
    msgs = {}
    for i, (name, val) in enumerate(codes):
        ctx.begin(i, name)
        ctx.count('codes')
        if val < 0 or val >= nerr:
            ctx.violation('errlist:%s:out-of-table' % name, '%s=%d but cif_nerr=%d' % (name, val, nerr), dict(code=name))
            continue
        raw = L.vp_errlist_entry(val)
        msg = raw.decode('latin-1') if raw is not None else ''
        msgs[name] = (val, msg)
        ctx.add('messages', '%d=%s' % (val, msg))
        if not msg.strip():
            ctx.violation('errlist:%s:empty' % name, 'cif_errlist[%d] (%s) is empty' % (val, name), dict(code=name))
            continue
        pat = PATTERNS.get(name) or fallback_pattern(name)
        if not re.search(pat, msg, re.I):
            # which code does the message describe instead?
            others = [n for n, p in PATTERNS.items() if n != name and re.search(p, msg, re.I)]
            ctx.violation('errlist:%s:mismatch' % name,
                          'cif_errlist[%d] (%s) = %r does not describe that condition (expected /%s/; it reads like %s)'
                          % (val, name, msg, pat, ', '.join(others[:4]) or 'none of the known codes'),
                          dict(code=name, message=msg))
        else:
            ctx.count('matched')
    # distinctness (aliases with equal value share an entry legitimately)
    seen = {}
    for name, (val, msg) in msgs.items():
        if not msg.strip():
            continue
        if msg in seen and seen[msg][1] != val:
            ctx.violation('errlist:%s:duplicate' % name, 'cif_errlist[%d] (%s) repeats the message of %s: %r'
                          % (val, name, seen[msg][0], msg), dict(code=name))
        else:
            seen.setdefault(msg, (name, val))
    ctx.sample(dict(code=codes[0][0], value=codes[0][1], message=msgs.get(codes[0][0], (0, None))[1]))
    if len(codes) > 5:
        n = codes[len(codes) // 2][0]
        ctx.sample(dict(code=n, value=dict(codes)[n], message=msgs.get(n, (0, None))[1]))


def run(env):
    codes = header_codes(build.repo_root())
    res = env.run_pool(MODULE, dict(codes=codes), nshards=1)
    inconclusive = list(res.inconclusive)
    if len(codes) < 40:
        inconclusive.append('only %d result codes extracted from cif.h' % len(codes))
    if res.count('codes') != len(codes) and not res.violations:
        inconclusive.append('worker judged %d of %d codes' % (res.count('codes'), len(codes)))
    return dict(
        level='exploration',
        coverage=dict(evaluations=res.count('codes'), distinct_nontrivial=len(res.sets.get('messages', ())),
                      rule='one evaluation per result-code macro of the working tree\'s cif.h (return-code group, '
                           'navigation values excluded); distinct = distinct (code, message) pairs read from the '
                           'real table', samples=res.samples, exhaustive=True, codes_in_header=len(codes),
                      cif_nerr=res.count('nerr'), messages_matching_their_code=res.count('matched')),
        violations=res.violations, inconclusive=inconclusive,
        assumptions=['the keyword table in vp/checks/C20.py captures what each code\'s documentation describes'])


def replay(env, rec):
    return run(env)
