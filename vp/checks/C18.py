"""C18 - string analysis and quoting rules agree with what the parser reads back.

 A. exhaustive: every string of length <= 4 (thorough 5) over the alphabet of syntactically significant characters
    x allow_unquoted x allow_triple_quoted at limit 2048 and at small limits: the statistics are compared with an
    independent recount, the recommended delimiter must be permitted by the arguments and fit the limit, a
    whitespace-delimited or single-quoted form must be chosen when one is admissible with room to spare, and the string
    presented with the recommended delimiter (in one of three positions of a line: after a blank, at column 1, flush
    against column 2048) must be read back by the parser as exactly that string.  Strings are parsed in batches of
    one probe document per 150 strings; a batch with any discrepancy is re-run string by string.
 B. long strings: lengths and first / last / inner line lengths around 2048, semicolon runs, trailing blanks, both
    triple delimiters, look-alike fold / prefix markers - one probe document each.
 C. cif_value_set_quoted / try_quoted(NOT_QUOTED) on quoted character values of the same strings: outcome class per the
    CIF 2.0 rule; values it lets through are presented whitespace-delimited and read back.
 D. cif_is_reserved_string over the same strings and over the reserved-word family (all case masks, truncations,
    extensions, one-character substitutions, look-alike letters): equal to the documented rule, and strings it calls
    free are read back whitespace-delimited as values."""
import itertools

from .. import gen_cif as GC
from .. import gen_values as G
from .. import parsing
from ..lib import *      # noqa: F401,F403
from ..monitors import LedgerScope

MODULE = __name__
ALPHABET = ['\'', '"', ';', '#', '$', '_', '[', ']', '{', '}', ' ', '\t', '\n', '\r', '\\', '?', '.', 'a', '1']
LIMIT = 2048
BATCH = 150


# ---- independent recount --------------------------------------------------------------------------------------

def split_lines(s):
    """lines and the terminators between them: LF, CR LF and lone CR all terminate a line"""
    lines, cur, i, terms = [], [], 0, []
    while i < len(s):
        c = s[i]
        if c == '\r' and i + 1 < len(s) and s[i + 1] == '\n':
            lines.append(''.join(cur))
            cur = []
            terms.append(i + 2)
            i += 2
        elif c in '\r\n':
            lines.append(''.join(cur))
            cur = []
            terms.append(i + 1)
            i += 1
        else:
            cur.append(c)
            i += 1
    lines.append(''.join(cur))
    return lines, terms


def recount(s):
    lines, terms = split_lines(s)
    u = [units(l) for l in lines]
    run = best = 0
    for c in s:
        run = run + 1 if c == ';' else 0
        best = max(best, run)
    return dict(length=units(s), num_lines=len(lines), length_first=u[0], length_last=u[-1], length_max=max(u),
                max_semi_run=best, contains_text_delim=int(any(t < len(s) and s[t] == ';' for t in terms)),
                has_trailing_ws=int(any(l[-1:] in (' ', '\t') for l in lines)),
                vt_trailing=any(l[-1:] == '\x0b' for l in lines))


def ascii_lower(s):
    return ''.join(chr(ord(c) + 32) if 'A' <= c <= 'Z' else c for c in s)


def reserved_rule(s):
    if not s:
        return False
    if s[0] in '_#$\'"':
        return True
    low = ascii_lower(s)
    return low.startswith('data_') or low.startswith('save_') or low in ('loop_', 'stop_', 'global_')


def unquoted_admissible(s):
    """CIF 2.0: may s be presented whitespace-delimited (anywhere but column 1 if it starts with ';')"""
    if s == '' or s in ('?', '.'):
        return False
    if any(c in ' \t\n\r[]{}' for c in s):
        return False
    return not reserved_rule(s)


# ---- presentation ---------------------------------------------------------------------------------------------

class Unpresentable(Exception):
    pass


def present(rng, s, a, layout):
    """the probe text of one value with the recommended delimiter; layout: 0 after a blank, 1 at column 1, 2 flush right"""
    d = ''.join(chr(c) for c in a.delim[:a.delim_length])
    name = '_v###'
    if d == '\n;':
        fold = a.length_first >= LIMIT or a.length_max > LIMIT or bool(a.has_reserved_start) or a.max_semi_run >= LIMIT - 1
        prefix = bool(a.contains_text_delim) or (fold and (s.startswith(';') or a.max_semi_run >= LIMIT - 1))
        if prefix and a.length_max + 8 > LIMIT:
            fold = True           # the prefix itself takes up to eight characters of every line
        try:
            body = GC.encode_text_field(rng, s, fold, prefix)
        except ValueError:
            body = GC.encode_text_field(rng, s, True, True)
        return name + '\n;' + body + '\n;\n'
    tok = d + s + d
    first = tok.split('\n')[0]
    if layout == 1 or len(name) + 1 + len(first) > LIMIT:
        return name + '\n' + tok + '\n'
    if layout == 2 and len(first) + len(name) + 1 <= LIMIT:
        return name + ' ' * (LIMIT - len(name) - len(first)) + tok + '\n'
    sep = rng.choice([' ', '\t', '  '])
    if len(name) + len(sep) + len(first) > LIMIT:
        sep = ' '
    return name + sep + tok + '\n'


def probe_document(parts):
    """parts: list of probe texts each starting with the placeholder name '_v###' -> document with distinct names"""
    out = ['#\\#CIF_2.0\ndata_b\n']
    for i, p in enumerate(parts):
        out.append('_v%03d' % i + p[5:])
    return ''.join(out).encode('utf-8', 'surrogatepass')


def read_back(L, data, n):
    """-> (errors, [text or None for each item])"""
    res = parsing.parse(L, data, parsing.make_opts(), 'new', 'accept')
    vals = [None] * n
    try:
        if res.cif:
            rc, blk = L.get_block(res.cif, 'b')
            if rc == CIF_OK:
                for i in range(n):
                    rc, v = L.get_value(blk, '_v%03d' % i)
                    if rc == CIF_OK:
                        vals[i] = L.read_value(v)
                        L.value_free(v)
                L.container_free(blk)
        return list(res.errors) + [('problem',) + p for p in res.problems] + ([('rc', res.rc)] if res.rc != CIF_OK else []), vals
    finally:
        if res.cif:
            L.destroy(res.cif)


def value_text_matches(got, s):
    return got is not None and got[0] in ('char', 'numb') and got[1] == s


class Batch:
    """probes collected into one document; discrepancies are attributed by re-running the suspects alone"""

    def __init__(self, ctx, facet):
        self.ctx = ctx
        self.facet = facet
        self.items = []       # (probe text, string, info, keyclass)

    def add(self, probe, s, info, keyclass):
        self.items.append((probe, s, info, keyclass))
        if len(self.items) >= BATCH:
            self.flush()

    def flush(self):
        items, self.items = self.items, []
        if not items:
            return
        ctx, L = self.ctx, self.ctx.L
        errors, vals = read_back(L, probe_document([p for p, _, _, _ in items]), len(items))
        ctx.count('probe_documents')
        if not errors and all(value_text_matches(v, s) for v, (_, s, _, _) in zip(vals, items)):
            ctx.count('read_backs_ok', len(items))
            return
        for probe, s, info, keyclass in items:
            errors, vals = read_back(L, probe_document([probe]), 1)
            ctx.count('probe_documents')
            if errors or not value_text_matches(vals[0], s):
                what = 'error-%s' % (errors[0][0],) if errors else ('kind-%s' % vals[0][0] if vals[0] and vals[0][0] not in ('char', 'numb') else 'different-text')
                ctx.violation('%s:read-back:%s:%s' % (self.facet, keyclass, what),
                              'the string %r presented as %r is read back as %r with errors %r' % (s, probe[:120], vals[0] if vals[0] is None else vals[0][:2], errors[:3]), info)
            else:
                ctx.count('read_backs_ok')


# ---- analysis ------------------------------------------------------------------------------------------------

STAT_FIELDS = ('length', 'num_lines', 'length_first', 'length_last', 'length_max', 'max_semi_run', 'contains_text_delim', 'has_trailing_ws')


def delim_class(d):
    return {'': 'none', "'": 'single', '"': 'single', "'''": 'triple', '"""': 'triple', '\n;': 'text'}.get(d, 'other')


def analysis_case(ctx, batch, rng, s, unq, triple, limit, layout, read=True):
    L = ctx.L
    rc, a = L.analyze(s, unq, triple, limit)
    ctx.count('analyses')
    info = dict(string=s, allow_unquoted=unq, allow_triple=triple, limit=limit)
    if rc != CIF_OK:
        ctx.violation('analyze:rc:%d' % rc, 'cif_analyze_string(%r) -> %d' % (s, rc), info)
        return
    want = recount(s)
    for f in STAT_FIELDS:
        got = getattr(a, f)
        if f in ('contains_text_delim', 'has_trailing_ws'):
            got = int(bool(got))
            if f == 'has_trailing_ws' and want['vt_trailing']:
                continue
        if got != want[f]:
            ctx.violation('analyze:stat:%s:%s' % (f, 'crlf' if '\r\n' in s else ('cr' if '\r' in s else 'lf')),
                          'cif_analyze_string(%r).%s = %d, recount %d' % (s, f, got, want[f]), info)
            return
    d = ''.join(chr(c) for c in a.delim[:a.delim_length])
    cls = delim_class(d)
    ctx.add('delims', cls)
    if cls == 'other' or (a.delim_length < 4 and a.delim[a.delim_length] != 0):
        ctx.violation('analyze:delim:unknown', 'cif_analyze_string(%r) recommends delimiter %r' % (s, d), info)
        return
    single_line = want['num_lines'] == 1
    n = want['length']
    # permitted by the arguments, and fitting the limit
    bad = None
    if cls == 'none':
        if not unq:
            bad = 'unquoted-not-allowed'
        elif not single_line or n > limit:
            bad = 'does-not-fit'
        elif not unquoted_admissible(s) or s.startswith(';'):
            bad = 'inadmissible'
    elif cls == 'single':
        if not single_line or n + 2 > limit:
            bad = 'does-not-fit'
        elif d in s:
            bad = 'inadmissible'
    elif cls == 'triple':
        if not triple:
            bad = 'triple-not-allowed'
        elif (single_line and n + 6 > limit) or want['length_first'] + 3 > limit or want['length_last'] + 3 > limit or want['length_max'] > limit:
            bad = 'does-not-fit'
        elif d in s or s.endswith(d[0]):
            bad = 'inadmissible'
    if bad:
        ctx.violation('analyze:delim:%s:%s' % (cls, bad), 'cif_analyze_string(%r, unquoted %d, triple %d, limit %d) recommends %r' % (s, unq, triple, limit, d), info)
        return
    # a simple form is chosen whenever one is admissible with room to spare
    if single_line and cls not in ('none', 'single'):
        if (n + 2 + 8 <= limit and ("'" not in s or '"' not in s)) or (unq and n + 8 <= limit and unquoted_admissible(s) and not s.startswith(';')):
            ctx.violation('analyze:delim:%s:simple-form-available' % cls, 'cif_analyze_string(%r, unquoted %d, triple %d, limit %d) recommends %r although a whitespace-delimited or single-quoted form fits' % (s, unq, triple, limit, d), info)
            return
    ctx.count('analyses_consistent')
    if read and limit == LIMIT and '\r' not in s and GC.text_ok(s):
        batch.add(present(rng, s, a, layout), s, info, cls)


def nth_string(idx):
    k = 0
    r = idx
    while r >= len(ALPHABET) ** k:
        r -= len(ALPHABET) ** k
        k += 1
    out = []
    for _ in range(k):
        r, d = divmod(r, len(ALPHABET))
        out.append(ALPHABET[d])
    return ''.join(reversed(out))


def quoted_case(ctx, batch, s, rng):
    """set_quoted / try_quoted(NOT_QUOTED) on a quoted character value"""
    L = ctx.L
    if '\0' in s:
        return
    want = G.unquoted_outcome(s)
    info = dict(string=s)
    for fn in ('cif_value_set_quoted', 'cif_value_try_quoted'):
        v = L.make_value(('char', s, True))
        try:
            rc = L.call(fn, v, 0)
            got = L.read_value(v)
            ctx.count('quoting_calls')
            if want == 'dontcare':
                continue
            soft = fn == 'cif_value_try_quoted' and want == 'refuse' and not any(c in ' \t\n\r' for c in s) and s and not reserved_rule(s)
            if want == 'unk':
                ok = rc == CIF_OK and got == ('unk',)
            elif want == 'na':
                ok = rc == CIF_OK and got == ('na',)
            elif want == 'ok':
                ok = rc == CIF_OK and got == ('char', s, False)
            elif soft:
                # brackets and braces only: try_quoted reports success and leaves the value quoted
                ok = rc == CIF_OK and got == ('char', s, True)
            else:
                ok = rc == CIF_ARGUMENT_ERROR and got == ('char', s, True)
            if not ok:
                ctx.violation('quoting:%s:%s' % (fn[10:], want), '%s(%r, NOT_QUOTED) -> %d leaving %r; CIF 2.0 rule: %s' % (fn, s, rc, got, want), info)
                return
            ctx.count('quoting_consistent')
        finally:
            L.value_free(v)
    if want == 'ok' and GC.text_ok(s):
        batch.add('_v### ' + s + '\n', s, info, 'unquoted-value')


RESERVED_WORDS = ['data_', 'save_', 'loop_', 'stop_', 'global_']
LOOKALIKES = {'s': 'ſ', 'k': 'K', 'a': 'а', 'o': 'ο', 'e': 'е', 'p': 'р', 'l': 'ℓ', 'd': 'ⅾ'}


def reserved_family():
    out = []
    for w in RESERVED_WORDS:
        letters = [i for i, c in enumerate(w) if c.isalpha()]
        for mask in range(1 << len(letters)):
            t = list(w)
            for b, i in enumerate(letters):
                if mask >> b & 1:
                    t[i] = t[i].upper()
            t = ''.join(t)
            for suffix in ('', 'x', '_', '1', '_x', 'é'):
                out.append(t + suffix)
        for i in range(1, len(w)):
            out.append(w[:i])                        # truncations
            out.append(w[:i] + w[i + 1:])            # deletions
            out.append(w[:i] + 'x' + w[i:])          # insertions
        for i, c in enumerate(w):
            out.append(w[:i] + ('4' if c != '4' else '5') + w[i + 1:])
            if c in LOOKALIKES:
                out.append(w[:i] + LOOKALIKES[c] + w[i + 1:])
                out.append(w[:i] + LOOKALIKES[c] + w[i + 1:] + 'x')
        for pre in ('x', '-', '.', '?', '\\', ':'):
            out.append(pre + w)
            out.append(pre + w + 'x')
    return out


def reserved_case(ctx, batch, s):
    L = ctx.L
    got = bool(L.call('cif_is_reserved_string', U(s)))
    want = reserved_rule(s)
    ctx.count('reserved_queries')
    info = dict(string=s)
    if got != want:
        ctx.violation('reserved:%s' % ('missed' if want else 'spurious'), 'cif_is_reserved_string(%r) = %d; documented rule: %d' % (s, got, want), info)
        return
    ctx.count('reserved_consistent')
    if not got and unquoted_admissible(s) and GC.text_ok(s):
        batch.add('_v### ' + s + '\n', s, info, 'free-word')


# ---- long strings ----------------------------------------------------------------------------------------------

def long_string(rng):
    fill = lambda n: ''.join(rng.choice('abcdefghij0123456789') for _ in range(max(0, n)))
    around = lambda: rng.choice([2038, 2040, 2041, 2042, 2043, 2044, 2045, 2046, 2047, 2048, 2049, 2050, 2060])
    kind = rng.choice(['single', 'single-q', 'single-both', 'multi', 'multi-triple', 'semis', 'trail', 'marker', 'supp'])
    if kind == 'single':
        return fill(around())
    if kind == 'single-q':
        n = around()
        s = fill(n)
        k = rng.randrange(n)
        return s[:k] + rng.choice(['\'', '"', ' ', ']', ';']) + s[k + 1:]
    if kind == 'single-both':
        n = around()
        s = list(fill(n))
        s[rng.randrange(n)] = "'"
        s[rng.randrange(n)] = '"'
        if rng.random() < 0.3:
            k = rng.randrange(n - 3)
            s[k:k + 3] = rng.choice(["'''", '"""'])
        if rng.random() < 0.3:
            s[-1] = rng.choice(['\'', '"'])
        return ''.join(s)
    if kind in ('multi', 'multi-triple'):
        lines = [fill(rng.choice([0, 3, around()])) for _ in range(rng.randint(2, 4))]
        s = '\n'.join(lines)
        if kind == 'multi-triple':
            for q in rng.sample(["'''", '"""', "''", '"'], rng.randint(1, 2)):
                k = rng.randrange(len(s) + 1)
                s = s[:k] + q + s[k:]
        if rng.random() < 0.3:
            s = s.replace('\n', '\n;', 1)
        return s
    if kind == 'semis':
        n = rng.choice([1, 5, 2046, 2047, 2048, 2049, 2100])
        return rng.choice(['', 'a', 'a\n']) + ';' * n + rng.choice(['', 'b', '\nb'])
    if kind == 'trail':
        return fill(rng.choice([3, around()])) + rng.choice([' ', '\t', ' \t']) + rng.choice(['', '\n' + fill(5), '\n'])
    if kind == 'marker':
        return rng.choice(['', '> ', 'x', ';']) + rng.choice(['\\', '\\\\', '\\ ', '\\\t ']) + '\n' + rng.choice(['', '> ']) + fill(rng.choice([0, 5, around()])) + rng.choice(['', '\\', '\n;'])
    n = around() // 2
    return ''.join(rng.choice(['\U0001f600', '\U00010000', 'a']) for _ in range(n)) + rng.choice(['', '\n\U0001f600'])


def worker(ctx):
    L = ctx.L
    maxlen = ctx.params['maxlen']
    total_strings = sum(len(ALPHABET) ** k for k in range(0, maxlen + 1))
    per_block = 2000
    nblocks = (total_strings + per_block - 1) // per_block
    nlong = ctx.params['long_cases']
    family = reserved_family()
    nfam = (len(family) + 499) // 500
    total = nblocks + nlong + nfam
    if ctx.params.get('_single') is not None:
        ctx.single = ctx.params['_single']
    scope = LedgerScope(L).__enter__()
    for i in ctx.cases(total):
        ctx.begin(i)
        ctx.count('cases')
        rng = ctx.rng('C18', i)
        ba = Batch(ctx, 'analyze')
        bq = Batch(ctx, 'quoting')
        br = Batch(ctx, 'reserved')
        if i < nblocks:
            for idx in range(i * per_block, min((i + 1) * per_block, total_strings)):
                s = nth_string(idx)
                ctx.count('strings')
                for unq in (1, 0):
                    for triple in (1, 0):
                        analysis_case(ctx, ba, rng, s, unq, triple, LIMIT, idx % 3)
                        analysis_case(ctx, ba, rng, s, unq, triple, rng.choice([1, 2, 3, 4, 5, 6, 7, 8, 9, 10, 11, 12, 13]), 0, read=False)
                quoted_case(ctx, bq, s, rng)
                reserved_case(ctx, br, s)
        elif i < nblocks + nlong:
            for _ in range(20):
                s = long_string(rng)
                ctx.count('strings')
                ctx.count('long_strings')
                for unq in (1, 0):
                    for triple in (1, 0):
                        analysis_case(ctx, ba, rng, s, unq, triple, LIMIT, rng.randrange(3))
                analysis_case(ctx, ba, rng, s, 1, 1, rng.choice([80, 2040, 2046, 2047, 2049, 2050, 5000]), 0, read=False)
            ba.flush()
        else:
            for s in family[(i - nblocks - nlong) * 500:(i - nblocks - nlong + 1) * 500]:
                ctx.count('strings')
                ctx.count('reserved_family_strings')
                reserved_case(ctx, br, s)
                quoted_case(ctx, bq, s, rng)
                analysis_case(ctx, ba, rng, s, 1, 1, LIMIT, rng.randrange(3))
        ba.flush()
        bq.flush()
        br.flush()
        ctx.drain_events(dict(index=i))
        if i % 41 == 0:
            ctx.sample(dict(index=i, part='exhaustive' if i < nblocks else ('long' if i < nblocks + nlong else 'reserved-family')), 3)
    for suffix, detail in scope.finish():
        ctx.violation(suffix, detail, dict(index=-1))


def run(env):
    q = env.quick
    params = dict(maxlen=4 if q else 5, long_cases=64 if q else 2000)
    res = env.run_pool(MODULE, params, nshards=16, case_timeout=600, total_timeout=3000 if q else 40000)
    inconclusive = list(res.inconclusive)
    total_strings = sum(len(ALPHABET) ** k for k in range(0, params['maxlen'] + 1))
    if res.count('strings') < total_strings and not res.violations:
        inconclusive.append('sweep incomplete: %d strings' % res.count('strings'))
    return dict(
        level='exploration',
        coverage=dict(
            evaluations=res.count('analyses') + res.count('quoting_calls') + res.count('reserved_queries'),
            distinct_nontrivial=res.count('analyses_consistent') + res.count('quoting_consistent') + res.count('reserved_consistent'),
            rule='evaluations = cif_analyze_string calls (string x allow_unquoted x allow_triple x limit, all distinct) '
                 '+ set_quoted / try_quoted calls + cif_is_reserved_string queries; non-trivial = calls whose statistics, '
                 'delimiter class, outcome or answer agreed with the independent recount / CIF 2.0 rule',
            samples=res.samples, exhaustive_to_length=params['maxlen'], alphabet=''.join(ALPHABET), strings=res.count('strings'),
            long_strings=res.count('long_strings'), reserved_family_strings=res.count('reserved_family_strings'),
            analyses=res.count('analyses'), analyses_consistent=res.count('analyses_consistent'),
            delimiter_classes_seen=sorted(res.sets.get('delims', ())),
            probe_documents_parsed=res.count('probe_documents'), read_backs_ok=res.count('read_backs_ok'),
            quoting_calls=res.count('quoting_calls'), reserved_queries=res.count('reserved_queries'), crashes=res.crashes),
        violations=res.violations, inconclusive=inconclusive,
        assumptions=['line terminators are LF, CR LF and CR; strings containing CR are not read back (the parser '
                     'normalises line terminators, so no presentation preserves them)',
                     '"room to spare" = eight characters; vertical tab is not judged as trailing blank',
                     'a text field is presented with the fold / prefix protocols as the analysis flags direct'])


def replay(env, rec):
    env.single = (rec.get('case') or {}).get('index')
    return run(env)
