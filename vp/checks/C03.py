"""C03 - the parser is total and honours the error-callback contract on any input.

Inputs: documents from the independent writer (CIF 2.0 and 1.1 layouts), the repository's test-data files, defect-rich
tails and random token soup, encoded as UTF-8 / UTF-16 / UTF-32 with or without BOM, then damaged by structure-aware
mutation (byte flips, insertion of control bytes / malformed UTF-8 / surrogates / BOMs, deletion, duplication and swap
of spans, truncation, splicing of CIF tokens, runs of up to a megabyte).  Each input is parsed under a random option
vector in a family of runs on the same bytes:

  R0  every error accepted (the reference): the list of reported errors E and the result rc0
  R1  no error callback (default handler)          -> must return E[0].code, or rc0 when E is empty
  R2  the n-th error rejected with a code Z        -> must see exactly E[:n] and return Z (n <= |E|), else as R0
  R3  R0 re-run with a different read-chunk size and with / without a handler -> same E, same rc
  R4  the k-th read of the stream fails            -> a defined non-zero result, nothing else judged

and for each run: termination (watchdog), no sanitizer report, result in the contract's set, no failure without a
reported error, every callback with line >= 1 and readable text (touched under ASan), and afterwards the target CIF
(new, absent, or pre-populated) is dumped through the query API, walked, written, modified (create block, set, get,
remove, destroy block) and destroyed, with the allocation ledger balanced."""
import os
import random

from .. import dump as D
from .. import gen_cif as GC
from .. import parsing
from .. import walker
from ..lib import *      # noqa: F401,F403
from ..monitors import LedgerScope

MODULE = __name__

TOKENS = ['data_', 'data_x', 'save_', 'save_f', 'loop_', 'stop_', 'global_', '_n', '_a.b', '\n;', ';', '\n;\n', "'", '"', "'''", '"""',
          '[', ']', '{', '}', ':', '#', '#\\#CIF_2.0\n', '#\\#CIF_1.1\n', '\\\n', ';\\\n', ';> \\\\\n', '?', '.', ' ', '\t', '\n', '\r', '\r\n',
          '1.5(3)', 'abc', "'k':", '"k":v', '[1 2]', '{"a":1}', '$', '\ufeff', '\x0b', '\x0c', '\x1a', '\x7f', '\x00', '\ufffe', '\U0010ffff',
          '\ud800', '\udc00', '\u00e9', '\U0001f600']
# fragments that drive the parser into its recovery actions (every documented error class, nested and combined)
SNIPPETS = ["{\n;k\x01\n;:1 'c':2}", "{\n;key\n;:v}", "{'a\x01':1}", '{"a\x0bb":[1 {\'k\x0c\':2}]}', 'loop_\n_ _b 1 2 3\n', 'loop_\n_a _A _a 1 2 3 4\n',
            '_ bare\n', '_x 1 _x 2\n', 'loop_\n_p _q\n', 'loop_ stop_\n', "{:v 'b':2}", '{a:1 b :2}', "{'a': 'b':2}", "{'a':1 stray}", '[1 [2 {"k":[}]\n',
            "save_s _in 1 save_s2 _in 2 save_ save_\n", 'save_\n', 'data_\n_e 1\n', 'data_d\ndata_D\n', "_q 'abc\n", '_t \'\'\'x\n', ';unterminated\n', "'x'_y 'z'\n",
            ']\n', '}\n', 'global_\n', 'stop_\n', '_v data_x\n', "_k {'a':1}:2\n", '_l [1 2]]\n', ';\\\n;x\n;\n', ';> \\\\\n> a\\\n>b\n;\n', '_n ' + '9' * 30 + 'e' + '9' * 12 + '\n']
BAD_BYTES = [b'\x00', b'\xff', b'\xfe', b'\xc0\x80', b'\xed\xa0\x80', b'\xed\xb0\x80', b'\xef\xbb\xbf', b'\xef\xbf\xbe', b'\xf4\x90\x80\x80',
             b'\xe2\x82', b'\x80', b'\x1a', b'\x0b', b'\x0c', b'\x7f', b'\xff\xfe', b'\xfe\xff', b'\x00\x00\xfe\xff', b'\xf0\x9f\x98', b'\x85', b'\xc2\x85']
TINY = [b'\r', b'\n', b'\r\n', b' ', b'\t', b'#', b'_', b';', b"'", b'"', b'[', b'{', b':', b'data_', b'x', b'\x00', b'\x1a', b'\x7f',
        b'\xef\xbb\xbf', b'\xff\xfe', b'\xfe\xff', b'\xff\xfe\x00\x00', b'\x00\x00\xfe\xff', b'\xef', b'\xef\xbb', b'\xff', b'\r\x00', b'\x00\r']
CODECS = ['utf-8', 'utf-8', 'utf-8', 'utf-8', 'utf-16-le', 'utf-16-be', 'utf-32-le', 'utf-32-be', 'latin-1']
REPO_FILES = None


def repo_files():
    global REPO_FILES
    if REPO_FILES is None:
        from ..build import repo_root
        d = os.path.join(repo_root(), 'test-data')
        out = []
        for f in sorted(os.listdir(d)) if os.path.isdir(d) else []:
            if f.endswith('.cif') or f.endswith('.dic'):
                b = open(os.path.join(d, f), 'rb').read()
                out.append((f, b))
        REPO_FILES = out
    return REPO_FILES


def seed_input(rng):
    """-> (label, bytes)"""
    r = rng.random()
    if r < 0.45:
        version = rng.choice([2, 2, 1])
        doc = GC.rand_doc(rng, version, max_blocks=rng.choice([1, 2, 3]))
        w = GC.Writer(rng, version, magic=rng.random() < 0.8, comments=rng.random() < 0.7, dense=rng.random() < 0.3)
        text = w.document(doc, trailing=rng.choice(['\n', '', ' ']))
        label = 'writer-%d' % version
    elif r < 0.6:
        files = repo_files()
        if files:
            name, b = rng.choice(files)
            if len(b) > 65536:
                k = rng.randrange(len(b) - 40000)
                b = b[k:k + rng.choice([2000, 40000])]
            return 'repo:' + name, b
        text, label = 'data_x _a 1\n', 'tiny'
    elif r < 0.75:
        text = rng.choice(['#\\#CIF_2.0\n', '#\\#CIF_1.1\n', '']) + "data_d\n_x 1\n_x 2\n_y\n_z 'unterminated\n_q ok\nloop_\n_l1 _l2 1 2 3\n" \
            "save_s _in 1 save_s2 _in 2 save_ save_\n_t {'a':1 'b' 2 :3}\n_l [1 [2 3] {\"k\":[}]\n;text\nloop_ stop_ global_\ndata_d\n_dup 1\n" \
            "loop_\n_p _p 1 2\ndata_\n_e 1\n_" + rng.choice(['', 'a\n', "v '''x\n"])
        label = 'defects'
    elif r < 0.78:
        # degenerate inputs: nothing, or one to three of the pieces the first-character / signature logic looks at
        return 'tiny', b''.join(rng.choice(TINY) for _ in range(rng.choice([0, 1, 1, 2, 2, 3])))
    else:
        n = rng.choice([3, 10, 40, 200])
        pool = TOKENS + SNIPPETS if rng.random() < 0.5 else TOKENS
        text = rng.choice(['#\\#CIF_2.0\n', '', 'data_b\n']) + ''.join(rng.choice(pool) + rng.choice(['', ' ', ' ', '\n']) for _ in range(n))
        label = 'soup'
    codec = rng.choice(CODECS)
    bom = rng.random() < 0.3
    try:
        b = text.encode(codec, 'surrogatepass' if codec != 'latin-1' else 'replace')
    except UnicodeError:
        b = text.encode('utf-8', 'surrogatepass')
        codec = 'utf-8'
    if bom and codec != 'latin-1':
        b = '\ufeff'.encode(codec) + b
    return '%s:%s%s' % (label, codec, '+bom' if bom else ''), b


def mutate(rng, b):
    b = bytearray(b)
    ops = []
    for _ in range(rng.choice([0, 1, 1, 2, 3, 6])):
        op = rng.choice(['flip', 'insert-bad', 'insert-token', 'delete', 'dup', 'swap', 'truncate', 'run', 'eol', 'setbyte', 'token16'])
        n = len(b)
        ops.append(op)
        if op == 'flip' and n:
            for _ in range(rng.choice([1, 1, 3, 10])):
                k = rng.randrange(n)
                b[k] ^= 1 << rng.randrange(8)
        elif op == 'setbyte' and n:
            b[rng.randrange(n)] = rng.choice([0, 9, 10, 13, 26, 32, 34, 39, 59, 91, 93, 95, 123, 125, 127, 128, 192, 237, 239, 255])
        elif op == 'insert-bad':
            k = rng.randrange(n + 1)
            b[k:k] = rng.choice(BAD_BYTES) * rng.choice([1, 1, 2])
        elif op == 'insert-token':
            k = rng.randrange(n + 1)
            b[k:k] = rng.choice(TOKENS + SNIPPETS).encode('utf-8', 'surrogatepass')
        elif op == 'token16':
            k = rng.randrange(n + 1)
            b[k:k] = rng.choice(TOKENS).encode(rng.choice(['utf-16-le', 'utf-16-be', 'utf-32-le']), 'surrogatepass')
        elif op == 'delete' and n:
            k = rng.randrange(n)
            del b[k:k + rng.choice([1, 1, 2, 5, 40, 400])]
        elif op == 'dup' and n:
            k = rng.randrange(n)
            m = rng.choice([1, 3, 20, 200])
            b[k:k] = b[k:k + m]
        elif op == 'swap' and n > 4:
            i, j = sorted(rng.sample(range(n), 2))
            m = min(rng.choice([1, 5, 50]), j - i)
            b[i:i + m], b[j:j + m] = b[j:j + m], b[i:i + m]
        elif op == 'truncate' and n:
            del b[rng.randrange(n):]
        elif op == 'run':
            k = rng.randrange(n + 1)
            unit = rng.choice([b'a', b';', b"'", b'"', b' ', b'\n', b'[', b'{', b'_', b'\\', b'x y ', b'\xf0\x9f\x98\x80', b'\r', b'#', b'1', b'data_', b'\n;'])
            m = rng.choice([10, 300, 2040, 2049, 5000, 70000])
            if rng.random() < 0.02:
                m = 1000000
            b[k:k] = unit * (m // len(unit))
        elif op == 'eol':
            b = bytearray(bytes(b).replace(b'\n', rng.choice([b'\r\n', b'\r', b'\n\r', b'\x0c', b'\n'])))
    return bytes(b), ops


def option_vector(rng):
    o = dict(prefer_cif2=rng.choice([0, 0, -1, 1, 20, -5, 99]), depth=rng.choice([1, 1, -1, 0, 2, 3]),
             fold=rng.choice([0, 0, -1, 1]), prefix=rng.choice([0, 0, -1, 1]),
             ws=rng.choice([None, None, b'\x0b', b'\x0b\x0c x', b'\x85']), eol=rng.choice([None, None, b'\x0c', b'\x0c\x0b', b' \t']),
             encoding=rng.choice([None, None, None, b'ISO-8859-1', b'UTF-16LE', b'UTF-8', b'US-ASCII', b'UTF-32BE', b'windows-1252']),
             force=rng.choice([0, 0, 0, 1]))
    if rng.random() < 0.03:
        o['encoding'] = b'no-such-encoding-xyz'
    # bytes beyond the ASCII / C1 range the option is documented for: they must at least do no harm
    if rng.random() < 0.12:
        o['ws'] = rng.choice([b'\xa0', b'\xc2\xa0', b'\x0b\xff', bytes(rng.sample(range(0xa0, 0x100), 6)), bytes(range(0xa0, 0x100))])
    if rng.random() < 0.12:
        o['eol'] = rng.choice([b'\xa0', b'\xe2\x80\xa8', b'\x0c\xfe', bytes(rng.sample(range(0xa0, 0x100), 6)), bytes(range(0xa0, 0x100))])
    return o


def valid_options(o):
    return o['encoding'] != b'no-such-encoding-xyz'


def opts_of(o):
    return parsing.make_opts(**o)


def prepopulated(L):
    """a CIF that already holds a block the input is likely to collide with, and other content"""
    cif = L.create()[1]
    for code in ('d', 'x', 'b', 'keep'):
        rc, blk = L.create_block(cif, code)
        v = L.make_value(('char', 'old', True))
        L.set_value(blk, '_old', v)
        L.value_free(v)
        if code == 'keep':
            rc, lp = L.create_loop(blk, 'cat', ['_k1', '_k2'])
            rc, pkt = L.packet_create(['_k1', '_k2'])
            L.loop_add_packet(lp, pkt)
            L.packet_free(pkt)
            L.loop_free(lp)
        L.container_free(blk)
    return cif


class Inconsistent(Exception):
    pass


def bracket_depth(data):
    """greatest number of simultaneously open [ / { in the bytes (quoting ignored; wide encodings counted by byte value)"""
    d = best = 0
    for c in data:
        if c == 0x5b or c == 0x7b:
            d += 1
            if d > best:
                best = d
        elif (c == 0x5d or c == 0x7d) and d:
            d -= 1
    return best


def has_empty_loop(d):
    """d: a dump ('cif', (container, ...)) with container = (code, frames, loops), loop = (category, names, packets)"""
    def cont(c):
        return any(not lp[2] for lp in c[2]) or any(cont(f) for f in c[1])
    return any(cont(c) for c in d[1])


def any_empty_loop(L, cif):
    """is there a loop without packets (found without reading any value)"""
    def cont(c):
        found = False
        rc, loops = L.get_all_loops(c)
        for lp in loops if rc == CIF_OK else []:
            rc2, it = L.loop_get_packets(lp)
            if rc2 == CIF_OK:
                L.it_abort(it)
            elif rc2 == CIF_EMPTY_LOOP:
                found = True
            L.loop_free(lp)
        rc, frames = L.get_all_frames(c)
        for f in frames if rc == CIF_OK else []:
            found = cont(f) or found
            L.container_free(f)
        return found
    found = False
    rc, blocks = L.get_all_blocks(cif)
    for b in blocks if rc == CIF_OK else []:
        found = cont(b) or found
        L.container_free(b)
    return found


def exercise(ctx, L, cif, i, label, deep=False):
    """the CIF must be usable: dump, walk, write, modify, (destroy is done by the caller)"""
    empty_loop = False
    if not deep:            # the harness's own recursive readers are not used on values nested hundreds of levels deep
        try:
            d = D.dump(L, cif)
        except D.DumpError as e:
            raise Inconsistent('dump', str(e))
        empty_loop = has_empty_loop(d)
        rc, rec = walker.walk(L, cif, query=True)
        if rc == CIF_EMPTY_LOOP and empty_loop:
            # a loop whose packets never arrived (parse aborted or recovered inside a loop) is a state the data model
            # allows; cif_walk and cif_write are documented to refuse it with this code
            ctx.count('cifs_left_with_an_empty_loop')
        elif rc != CIF_OK or rec.problems:
            raise Inconsistent('walk', 'cif_walk -> %d %r' % (rc, rec.problems[:2]))
    else:
        rc, rec = walker.walk(L, cif, query=False)
        if rc == CIF_EMPTY_LOOP and any_empty_loop(L, cif):
            ctx.count('cifs_left_with_an_empty_loop')
        elif rc != CIF_OK:
            raise Inconsistent('walk', 'cif_walk -> %d' % rc)
    rc, data = L.write_bytes(cif, None)
    if rc not in DEFINED_CODES:
        raise Inconsistent('write', 'cif_write -> %d' % rc)
    code = 'vp_fresh_%d' % i
    rc, blk = L.create_block(cif, code)
    if rc != CIF_OK:
        raise Inconsistent('modify', 'cif_create_block(%r) -> %d' % (code, rc))
    try:
        v = L.make_value(('char', 'new', True))
        rc = L.set_value(blk, '_fresh', v)
        L.value_free(v)
        if rc != CIF_OK:
            raise Inconsistent('modify', 'set_value -> %d' % rc)
        rc, g = L.get_value(blk, '_fresh')
        if rc != CIF_OK or L.read_value(g) != ('char', 'new', True):
            raise Inconsistent('modify', 'get_value -> %d' % rc)
        L.value_free(g)
        rc = L.remove_item(blk, '_fresh')
        if rc != CIF_OK:
            raise Inconsistent('modify', 'remove_item -> %d' % rc)
    finally:
        rc = L.container_destroy(blk)
    if rc != CIF_OK:
        raise Inconsistent('modify', 'container_destroy -> %d' % rc)
    ctx.count('cifs_exercised')


def one_run(ctx, L, data, o, target_kind, policy, i, label, handler=False, chunk=0, fail_at=0, syntax=False, deep=False, answers=None):
    """-> (rc, errors, problems); exercises and destroys the CIF"""
    pre = prepopulated(L) if target_kind == 'existing' else None
    if target_kind == 'again':
        first = parsing.parse(L, data, opts_of(o), 'new', 'accept')
        pre = first.cif if first.cif else L.create()[1]
    target = None if target_kind == 'none' else ('new' if target_kind == 'new' else pre)
    fn = (lambda k, kind, payload: answers[k % len(answers)]) if (handler and answers) else None
    res = parsing.parse(L, data, opts_of(o), target, policy, with_handler=handler, chunk=chunk, fail_at=fail_at, syntax=syntax, handler_answer_fn=fn)
    ctx.count('parses')
    cif = pre if pre else res.cif
    problems = list(res.problems)
    try:
        if cif:
            if L.in_transaction(cif):
                problems.append(('parse:left-in-transaction', 'the CIF is inside a transaction after cif_parse returned %d' % res.rc))
            try:
                exercise(ctx, L, cif, i, label, deep)
            except Inconsistent as e:
                problems.append(('parse:unusable:%s' % e.args[0], '%s run (rc %d, %d errors): %s' % (label, res.rc, len(res.errors), e.args[1])))
    finally:
        if cif:
            rc = L.destroy(cif)
            if rc != CIF_OK:
                problems.append(('parse:unusable:destroy', 'cif_destroy -> %d' % rc))
    return res.rc, res.errors, problems


# CIF 1.1 quoted strings longer than the scan buffer in which every (second, seventh) character is the delimiter itself,
# followed by a non-blank: the scanner looks one character ahead at each of them, also where the buffer has just run full
LONG_QUOTED = [("'", 1), ('"', 1), ("'", 2), ("'", 7)]
NSYSTEMATIC = 4 * len(SNIPPETS) + len(LONG_QUOTED)


def run_case(ctx, L, i):
    rng = ctx.rng('C03', i)
    label, base = seed_input(rng)
    data, ops = mutate(rng, base)
    o = option_vector(rng)
    # 'again': the target already holds what an earlier parse of the same bytes stored (every block a duplicate)
    target_kind = rng.choice(['new', 'new', 'new', 'none', 'none', 'existing', 'existing', 'again'])
    handler = rng.random() < 0.3
    if 4 * len(SNIPPETS) <= i < NSYSTEMATIC:
        q, step = LONG_QUOTED[i - 4 * len(SNIPPETS)]
        body = ''.join(q if k % step == 0 else 'x' for k in range(150000))
        data = ('data_d\n_a %s%s%s\n_b 1\n' % (q, body, q)).encode('utf-8')
        label, ops = 'long-quoted', []
        o = option_vector(random.Random(0))
        o.update(prefer_cif2=0, depth=1, fold=0, prefix=0, ws=None, eol=None, encoding=None, force=0)
        target_kind = 'new'
        handler = False
    elif i < NSYSTEMATIC:
        # every recovery fragment on its own, in CIF 2.0 and without magic code, storing and syntax-only, default options
        sn = SNIPPETS[i // 4]
        data = (('#\\#CIF_2.0\n' if i % 2 else '') + 'data_s\n_ok 1\n' + sn + '\n_after 2\n').encode('utf-8', 'surrogatepass')
        label, ops = 'snippet', []
        o = option_vector(random.Random(0))
        o.update(prefer_cif2=0, depth=1, fold=0, prefix=0, ws=None, eol=None, encoding=None, force=0)
        target_kind = 'new' if (i // 2) % 2 else 'none'
        handler = False
    # one input in three with a handler also steers the parse: a fixed table of navigation answers, indexed by
    # callback number, so that every run of the family gives the same answers
    answers = None
    if handler and rng.random() < 0.35:
        answers = [rng.choice([0, 0, 0, 0, 0, 0, TRAVERSE_SKIP_CURRENT, TRAVERSE_SKIP_SIBLINGS]) for _ in range(rng.choice([3, 7, 16]))]
        if rng.random() < 0.15:
            answers[rng.randrange(len(answers))] = TRAVERSE_END
        ctx.count('inputs_with_steering_handler')
    depth = bracket_depth(data)
    deep = depth > 200
    if deep:
        handler = False
        ctx.count('deeply_nested_inputs')
    # announce the case (and the precondition class that becomes part of the key of a crash or hang)
    ctx.begin(i, dict(key_suffix='bracket-nesting-over-1000') if depth > 1000 else None)
    info = dict(index=i, seed_kind=label, mutations=ops, size=len(data), target=target_kind, options={k: (v.decode('latin-1') if isinstance(v, bytes) else v) for k, v in o.items()})
    ctx.add('seed_kinds', label.split(':')[0])
    ctx.add('targets', target_kind)
    ctx.maxi('largest_input', len(data))
    scope = LedgerScope(L).__enter__()

    def report(problems, run):
        for k, d in problems:
            ctx.violation(k, '[%s] %s' % (run, d), info)

    # R0: the all-accepting reference
    rc0, E, problems = one_run(ctx, L, data, o, target_kind, 'accept', i, 'R0', handler=handler, answers=answers, deep=deep)
    report(problems, 'R0')
    ctx.count('errors_reported', len(E))
    for e in E:
        ctx.add('error_codes', str(e[0]))
    ctx.add('results', str(rc0))
    if rc0 not in DEFINED_CODES:
        ctx.violation('parse:rc:undefined', 'cif_parse returned %d with every error accepted' % rc0, info)
    elif rc0 != CIF_OK and not E and valid_options(o):
        ctx.violation('parse:failed-silently:%d' % rc0, 'cif_parse returned %d although no error was reported to the callback (input kind %s, %d bytes)' % (rc0, label, len(data)), info)
    if not valid_options(o):
        ctx.count('invalid_option_runs')
        if rc0 == CIF_OK and data:
            pass        # an unsupported default encoding need not matter when a signature decides the encoding
    # R1: the default handler returns exactly the first code
    rc1, E1, problems = one_run(ctx, L, data, o, target_kind, 'default', i, 'R1', handler=handler, answers=answers, deep=deep)
    report(problems, 'R1')
    want1 = E[0][0] if E else rc0
    if rc1 != want1:
        ctx.violation('parse:default-handler:%s' % ('ok-despite-error' if rc1 == CIF_OK else ('first-code' if E else 'no-error')),
                      'with the default handler cif_parse returned %d; the all-accepting parse reports %s first and returns %d' % (rc1, E[:1], rc0), info)
    else:
        ctx.count('default_twin_agreed')
    # R2: reject the n-th error with a code of the caller's
    n = rng.randint(1, len(E) + 1) if rng.random() < 0.8 else 1
    z = rng.choice([E[n - 1][0] if n <= len(E) else 5, 1, 2, 7777, 2147483647, 113, 255])
    rc2, E2, problems = one_run(ctx, L, data, o, target_kind, ('reject-nth', n, z), i, 'R2', handler=handler, answers=answers, deep=deep)
    report(problems, 'R2')
    if n <= len(E):
        if E2 != E[:n]:
            ctx.violation('parse:reject:errors-differ', 'rejecting error %d: the callback saw %r, the reference run %r' % (n, E2[-3:], E[max(0, n - 3):n]), info)
        elif rc2 != z:
            ctx.violation('parse:reject:code-not-forwarded', 'error %d of %d (code %d) was rejected with %d; cif_parse returned %d' % (n, len(E), E[n - 1][0], z, rc2), info)
        else:
            ctx.count('reject_twin_agreed')
    elif E2 != E or rc2 != rc0:
        ctx.violation('parse:nondeterministic', 'two parses of the same bytes differ: rc %d / %d, %d / %d errors' % (rc0, rc2, len(E), len(E2)), info)
    else:
        ctx.count('reject_twin_agreed')
    # R3: another chunking, handler toggled
    if i % 3 == 0 and not answers:
        chunk = rng.choice([1, 2, 3, 7, 64, 1000, 4093])
        if len(data) > 20000 and chunk < 7:
            chunk = 64
        rc3, E3, problems = one_run(ctx, L, data, o, target_kind, 'accept', i, 'R3', handler=(not handler and not deep), chunk=chunk, syntax=rng.random() < 0.3, deep=deep)
        report(problems, 'R3')
        if E3 != E or rc3 != rc0:
            d = next((k for k in range(min(len(E), len(E3))) if E[k] != E3[k]), min(len(E), len(E3)))
            ctx.violation('parse:chunking-or-handler-changes-errors', 'read size %d, handler %s: rc %d vs %d, errors differ from index %d: %r vs %r' % (chunk, not handler, rc3, rc0, d, E3[d:d + 2], E[d:d + 2]), info)
        else:
            ctx.count('chunk_twin_agreed')
    # R4: I/O failure
    if i % 4 == 1 and data:
        chunk = rng.choice([16, 100, 1000, 4096])
        reads = len(data) // chunk + 1
        k = rng.randint(1, max(1, reads))
        rc4, E4, problems = one_run(ctx, L, data, o, target_kind, 'accept', i, 'R4', handler=handler, answers=answers, chunk=chunk, fail_at=k, deep=deep)
        report(problems, 'R4')
        ctx.add('io_fault_results', str(rc4))
        if not L.last_read_failures:
            # the parse ended before the failing read (a steering handler answered END, or a rejected error): no fault
            ctx.count('io_faults_not_reached')
        elif rc4 not in DEFINED_CODES:
            ctx.violation('parse:io-fault:rc-undefined', 'read %d failing: cif_parse returned %d' % (k, rc4), info)
        elif rc4 == CIF_OK:
            ctx.violation('parse:io-fault:reported-success', 'read %d of about %d failed and cif_parse returned CIF_OK (%d errors reported)' % (k, reads, len(E4)), info)
        else:
            ctx.count('io_faults_injected')
    for suffix, detail in scope.finish():
        ctx.violation(suffix, detail, info)
    ctx.drain_events(info)
    if i % 211 == 0:
        ctx.sample(dict(index=i, seed_kind=label, mutations=ops, size=len(data), errors=len(E), rc=rc0), 4)


def worker(ctx):
    L = ctx.L
    n = ctx.params['inputs']
    if ctx.params.get('_single') is not None:
        ctx.single = ctx.params['_single']
    for i in ctx.cases(n):
        ctx.begin(i)
        ctx.count('inputs')
        run_case(ctx, L, i)


def fuzz_stage(env):
    """coverage-guided inputs through the same contract checks, compiled into the libFuzzer target (native/parse_run.c)"""
    import base64
    from .. import fuzz
    st = fuzz.run_fuzzer(env.seed, procs=16, runs=1500 if env.quick else 150000, max_len=4096 if env.quick else 16384,
                         timeout=600 if env.quick else 7200)
    viols = [dict(t='viol', key=key, detail=detail, case=dict(artifact_b64=base64.b64encode(data).decode())) for key, detail, data in st['findings']]
    return st, viols


def run(env):
    if getattr(env, 'artifact', None) is not None:
        # replay of a fuzzer artifact: one process, ASan/UBSan
        import tempfile
        from .. import build, fuzz
        with tempfile.NamedTemporaryFile(dir=os.path.join(fuzz.VERIF, 'build'), delete=True) as f:
            f.write(env.artifact)
            f.flush()
            c = fuzz.classify_artifact(build.build('asanexe'), f.name)
        viols = []
        if c:
            key = c[0] + (':bracket-nesting-over-1000' if fuzz.bracket_depth(env.artifact[8:]) > 1000 else '')
            viols.append(dict(t='viol', key=key, detail=c[1], case=None))
        return dict(level='exploration', coverage=dict(evaluations=1, distinct_nontrivial=0, rule='replay of one fuzzer artifact', samples=[]),
                    violations=viols, inconclusive=[], assumptions=[])
    n = 6000 if env.quick else 150000
    res = env.run_pool(MODULE, dict(inputs=n), nshards=16, case_timeout=150, total_timeout=3000 if env.quick else 60000)
    inconclusive = list(res.inconclusive)
    if res.count('inputs') < n and not res.violations:
        inconclusive.append('only %d of %d inputs ran' % (res.count('inputs'), n))
    fz = dict(executions=0, coverage_edges=0, features=0, seed_corpus=0, unfinished=0)
    if env.single is None:
        fz, fviols = fuzz_stage(env)
        res.violations.extend(fviols)
        if fz['unfinished']:
            inconclusive.append('%d fuzzer processes did not finish in time' % fz['unfinished'])
        if fz['executions'] == 0:
            inconclusive.append('the fuzzer executed nothing')
    return dict(
        level='exploration',
        coverage=dict(
            evaluations=res.count('parses') + fz['executions'], distinct_nontrivial=res.count('default_twin_agreed') + res.count('reject_twin_agreed') + res.count('chunk_twin_agreed') + res.count('io_faults_injected'),
            rule='one evaluation = one cif_parse call of the mutation stage (3 to 5 per input: accept-all reference, default '
                 'handler, n-th error rejected, other chunking / handler, failing read; inputs distinct by per-index PRNG) or '
                 'one execution of the libFuzzer target (three parses with the same in-process contract checks); non-trivial = '
                 'twin runs of the mutation stage whose result and error list agreed with what the contract derives from '
                 'the reference run',
            samples=res.samples, inputs=res.count('inputs'), errors_reported=res.count('errors_reported'),
            distinct_error_codes=sorted(res.sets.get('error_codes', ()), key=int), result_codes=sorted(res.sets.get('results', ()), key=int),
            seed_kinds=sorted(res.sets.get('seed_kinds', ())), targets=sorted(res.sets.get('targets', ())),
            largest_input_bytes=res.count('largest_input'),
            fuzzer_executions=fz['executions'], fuzzer_coverage_edges=fz['coverage_edges'], fuzzer_features=fz['features'],
            fuzzer_seed_corpus=fz['seed_corpus'], fuzzer_slow_units_clean_when_run_alone=fz.get('slow_units_clean_when_run_alone', 0),
            io_faults_not_reached_because_the_parse_ended_first=res.count('io_faults_not_reached'),
            cifs_exercised_after_parse=res.count('cifs_exercised'), io_faults_injected=res.count('io_faults_injected'),
            io_fault_results=sorted(res.sets.get('io_fault_results', ())), invalid_option_runs=res.count('invalid_option_runs'),
            crashes=res.crashes),
        violations=res.violations, inconclusive=inconclusive,
        assumptions=['an unsupported default_encoding_name is the only invalid option generated; it exempts a run from the '
                     '"no failure without a reported error" clause only',
                     'callback return values used for rejection are positive'])


def replay(env, rec):
    case = rec.get('case') or {}
    if case.get('artifact_b64'):
        import base64
        env.artifact = base64.b64decode(case['artifact_b64'])
        return run(env)
    env.single = case.get('index')
    return run(env)
