"""C02 - everything cif_write emits re-parses to an equivalent CIF  (shared machinery for C13: CIF 1.1 output).

CIFs are built through the public API from abstract content whose strings are boundary-biased (lengths around the
2048-character line limit, both quote kinds, triple-quote look-alikes, text-field terminator look-alikes, fold / prefix
marker look-alikes, trailing blanks and backslashes, semicolon runs, supplementary characters at fold points, very
long names that push the value to the line limit), written with cif_write, byte-checked (version comment, valid
UTF-8, no line longer than 2048 code points) and parsed back; the re-parse must report nothing and be equivalent to
the original under exactly the tolerances of the statement."""
from .. import cifbuild as B
from .. import dump as D
from .. import gen_cif as GC
from .. import parsing
from ..lib import *      # noqa: F401,F403
from ..monitors import LedgerScope

MODULE = __name__


def check_output(ctx, L, data, version, info, orig_eq, nested):
    """byte-level and re-parse checks of what cif_write produced; returns True if everything agreed"""
    magic = b'#\\#CIF_2.0\n' if version == 2 else b'#\\#CIF_1.1\n'
    facet = 'write' if version == 2 else 'write11'
    if not data.startswith(magic):
        ctx.violation('%s:header' % facet, 'output does not start with the version comment: %r' % data[:40], info)
        return False
    try:
        text = data.decode('utf-8')
    except UnicodeDecodeError as e:
        ctx.violation('%s:utf8' % facet, 'output is not valid UTF-8: %s' % e, info)
        return False
    lines = text.split('\n')
    worst = max(len(l) for l in lines)
    if worst > 2048:
        k = [i for i, l in enumerate(lines) if len(l) > 2048][0]
        ctx.violation('%s:linelen:%s' % (facet, classify_line(lines[k])), 'output line %d has %d characters: %r...' % (k + 1, len(lines[k]), lines[k][:80]), info)
        return False
    if version == 1:
        bad = [c for c in text if not GC.cif1_char_ok(c)]
        if bad:
            ctx.violation('%s:charset' % facet, 'CIF 1.1 output contains %r' % bad[:5], info)
            return False
    if version == 2:
        opts = parsing.make_opts(depth=-1 if nested else 1)
    else:
        opts = parsing.make_opts(prefer_cif2=-1, fold=1, prefix=1, depth=-1 if nested else 1)
    res = parsing.parse(L, data, opts, 'new', 'accept')
    try:
        for k, d in res.problems:
            ctx.violation(k, d, info)
        if res.errors or res.rc != CIF_OK:
            e = res.errors[0] if res.errors else None
            ctx.violation('%s:reparse-error:%s' % (facet, e[0] if e else 'rc%d' % res.rc),
                          're-parsing the output reports %r (rc %d); output around line %s:\n%s'
                          % (res.errors[:4], res.rc, e[1] if e else '?', '\n'.join(l[:160] for l in lines[max(0, (e[1] if e else 1) - 3):(e[1] if e else 1) + 1])), info)
            return False
        back = B.eq_dump(D.dump(L, res.cif))
        if back != orig_eq:
            ctx.violation('%s:diff:%s' % (facet, diff_class(back, orig_eq)), 'the re-parsed CIF is not equivalent to the original: %s' % D.first_difference(back, orig_eq), info)
            return False
        return True
    finally:
        if res.cif:
            L.destroy(res.cif)


def doc_names(doc):
    def rec(blk):
        for e in blk['entries']:
            if e[0] == 'item':
                yield e[1]
            elif e[0] == 'loop':
                for n in e[1]:
                    yield n
            else:
                for n in rec(e[1]):
                    yield n
    for b in doc:
        for n in rec(b):
            yield n


def table_keys_of(v):
    if v[0] == 'table':
        for k, e in v[1]:
            yield k
            for x in table_keys_of(e):
                yield x
    elif v[0] == 'list':
        for e in v[1]:
            for x in table_keys_of(e):
                yield x


def classify_line(line):
    s = line.lstrip()
    if s.startswith('_'):
        return 'name-line'
    if s.startswith('data_') or s.startswith('save_'):
        return 'header-line'
    if s.startswith(';'):
        return 'text-line'
    return 'value-line'


def diff_class(a, b):
    d = D.first_difference(a, b) or ''
    if 'length' in d:
        return 'structure'
    return 'value'


FILL_FIRST = [('char', 'abc', False), ('char', 'a b', True), ('char', "a'b c", True), ('char', 'a\'b"c', True), ('numb', '1.50(3)', False),
              ('char', 'x\ny', True), ('unk',), ('char', "it's \"so\"", True)]
FILL_LENGTHS = list(range(1985, 2049))
FILL_KINDS = ['list', 'loop', 'table', 'list-tail', 'table-key']
NFILL = len(FILL_FIRST) * len(FILL_LENGTHS) * len(FILL_KINDS)


def fill_probe_doc(j):
    """systematic line-fill probes: a short value of every presentation followed, in the same list / packet / table, by
    a filler of every length that brings the output line to the limit - the writer's column bookkeeping after each
    kind of token decides whether the filler still goes on that line"""
    kind = FILL_KINDS[j % len(FILL_KINDS)]
    j //= len(FILL_KINDS)
    first = FILL_FIRST[j % len(FILL_FIRST)]
    j //= len(FILL_FIRST)
    n = FILL_LENGTHS[j % len(FILL_LENGTHS)]
    filler = ('char', 'f' * n, False) if n % 2 else ('char', 'f' * (n - 2) + ' g', True)
    if kind == 'list':
        entries = [('item', '_n', ('list', (first, filler)))]
    elif kind == 'list-tail':
        entries = [('item', '_n', ('list', (('char', 'h', False), first, first, filler, first)))]
    elif kind == 'loop':
        entries = [('loop', ['_a', '_b', '_c'], [[first, filler, first], [filler, first, first]])]
    elif kind == 'table-key':
        # the filler as a key: the colon and the beginning of the entry's value must follow it on the same line
        entries = [('item', '_t', ('table', (('k', first), ('q' * n, first), ('z', first))))]
    else:
        entries = [('item', '_t', ('table', (('k', first), ('m', filler))))]
    return [{'code': 'fill', 'entries': entries}]


STRESS_FRAGMENTS = ["'''", '"""', "'", '"', '\n;', '\n;', '\n', ';', '\\', '\\\n', '\\ \n', '\\\t\n', ' \n', 'abc', ' ', '\\\\', '>', '> ',
                    '#', '_x', 'data_', '$', 'C:\\dir\\', ';\\', 'w' * 2040, 'line ' * 30]


BARE_LOOKALIKES = ['data_', 'data_set', 'save_', 'save_fr', 'loop_', 'stop_', 'global_', 'dat_', 'data', 'loop', '_name', '$ref', '#c',
                   "'q", '"q', ';x', '[a', ']', '{', '}b', 'a b', 'a\tb', 'a[b', 'a]', 'a{', 'k}', "a'", 'ok', '?x', '.5x', '-', '+']


def delimiter_stress_doc(rng):
    """strings assembled from the pieces the writer's choice of delimiter, text-field protocol (folding, prefixing,
    protection of trailing backslashes) and line breaking look at; scalars and loop values"""
    def s():
        t = ''.join(rng.choice(STRESS_FRAGMENTS) for _ in range(rng.randint(2, 7)))
        return ('char', t, True)
    entries = [('item', '_s%d' % k, s()) for k in range(4)]
    entries.append(('loop', ['_l1', '_l2'], [[s(), s()], [s(), ('char', 'plain', False)]]))
    # strings without a bare form (keyword look-alikes in every letter case, reserved first characters, blanks) for which
    # the caller asks for the bare form all the same (cif_value_set_quoted(v, CIF_NOT_QUOTED)): granted or refused, what
    # is written must read back as the string
    def w():
        t = rng.choice(BARE_LOOKALIKES)
        if rng.random() < 0.5:
            t = ''.join(c.upper() if rng.random() < 0.5 else c.lower() for c in t)
        return ('char', t + rng.choice(['', '', 'x', '1', '_']), 'try')
    entries += [('item', '_w%d' % k, w()) for k in range(3)]
    entries.append(('item', '_wl', ('list', (w(), w()))))
    entries.append(('loop', ['_w.a', '_w.b'], [[w(), w()]]))
    return [{'code': 'stress', 'entries': entries}]


def _run_case_body(ctx, L, i, version=2, scope=None):
    rng = ctx.rng('C02' if version == 2 else 'C13', i)
    big = ctx.tier != 'quick' and i % 50 == 0
    nfill = ctx.params.get('fill_probes', 0)
    if i < nfill:
        doc = fill_probe_doc(i)
        ctx.count('fill_probes')
    elif i % 5 == 3:
        doc = delimiter_stress_doc(rng)
        ctx.count('delimiter_stress_documents')
    else:
        doc = B.writer_doc(rng, ascii_only=(version == 1), big=big)
    info = dict(index=i, version=version)
    cif = None
    try:
        cif = B.build_cif(L, doc)
        orig = D.dump(L, cif)
        orig_eq = B.eq_dump(orig)
        # "default CIF 2.0 mode": no options at all, the options object's default (0), or CIF 2.0 asked for by number
        wv = (None, 0, 2)[i % 3] if version == 2 else 1
        rc, data = L.write_bytes(cif, wv)
        ctx.add('write_options', 'NULL' if wv is None else 'cif_version=%d' % wv)
        ctx.add('write_rc', str(rc))
        unwritable = any(B.unwritable_keys(v) for v in B.doc_values(doc))
        if rc != CIF_OK:
            if rc == CIF_DISALLOWED_VALUE and unwritable:
                ctx.count('refused_unwritable_key')
            else:
                # precondition class of the failure: names so long that a value cannot follow them on the same line
                longest = max([len(n) for n in doc_names(doc)] or [0])
                pre = ':name-over-2000-chars' if longest > 2000 else ''
                if not pre and max([len(k) for v in B.doc_values(doc) for k in table_keys_of(v)] or [0]) > 2000:
                    pre = ':table-key-over-2000-chars'
                ctx.violation('write:rc:%d%s' % (rc, pre), 'cif_write failed with %d for a CIF within the documented precondition (longest data name: %d characters)' % (rc, longest), info)
            return
        if check_output(ctx, L, data, 2, info, orig_eq, B.has_nested_frames(doc)):
            ctx.count('round_trips_ok')
            ctx.count('bytes_written', len(data))
            t = data.decode('utf-8')
            for tag, needle in (('text-field', '\n;'), ('folded', '\n;\\\n'), ('prefixed', '\n;> \\'), ('triple', "'''"), ('triple-dq', '"""')):
                if needle in t:
                    ctx.count('output_with_' + tag)
        ctx.sample(dict(index=i, output=data[:200].decode('utf-8', 'replace')), 3)
    except B.BuildError as e:
        ctx.inconclusive('cannot build the CIF for case %d: %s' % (i, e))
    finally:
        if cif:
            L.destroy(cif)
    ctx.drain_events(info)



def run_case(ctx, L, i, version=2):
    """the ledger is audited on every path out of the case, refusals included"""
    scope = LedgerScope(L).__enter__()
    try:
        _run_case_body(ctx, L, i, version, scope)
    finally:
        for suffix, detail in scope.finish():
            ctx.violation(suffix, detail, dict(index=i))

def worker(ctx):
    L = ctx.L
    n = ctx.params['cifs']
    if ctx.params.get('_single') is not None:
        ctx.single = ctx.params['_single']
    for i in ctx.cases(n):
        ctx.begin(i)
        ctx.count('cifs')
        run_case(ctx, L, i, 2)


def run(env):
    n = (8000 if env.quick else 120000) + NFILL
    res = env.run_pool(MODULE, dict(cifs=n, fill_probes=NFILL), nshards=16, case_timeout=300, total_timeout=3000 if env.quick else 30000)
    inconclusive = list(res.inconclusive)
    if res.count('cifs') < n and not res.violations:
        inconclusive.append('only %d of %d CIFs ran' % (res.count('cifs'), n))
    return dict(
        level='exploration',
        coverage=dict(
            evaluations=res.count('cifs'), distinct_nontrivial=res.count('round_trips_ok'),
            rule='one evaluation = one CIF built through the API from seeded abstract content (distinct by per-index '
                 'PRNG), written in CIF 2.0 mode; non-trivial = cif_write succeeded and its output passed the header, '
                 'UTF-8 and line-length checks and re-parsed without error to an equivalent CIF',
            samples=res.samples, systematic_line_fill_probes=res.count('fill_probes'),
            delimiter_stress_documents=res.count('delimiter_stress_documents'),
            write_options_used=sorted(res.sets.get('write_options', ())), refused_for_unwritable_table_key=res.count('refused_unwritable_key'),
            bytes_written=res.count('bytes_written'),
            outputs_with={k[len('output_with_'):]: v for k, v in res.counters.items() if k.startswith('output_with_')},
            write_result_codes=sorted(res.sets.get('write_rc', ())), crashes=res.crashes),
        violations=res.violations, inconclusive=inconclusive,
        assumptions=['equivalence ignores loop categories (not representable in CIF text), compares names by normal '
                     'form, treats a number and an unquoted string of the same text as equal and lets an unquoted string '
                     'beginning with ";" come back quoted'])


def replay(env, rec):
    env.single = (rec.get('case') or {}).get('index')
    return run(env)
