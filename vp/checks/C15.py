"""C15 - parse-time callbacks mirror the document and steer what is stored.

For generated well-formed documents the expected handler-callback sequence is derived from the *abstract document*
(not from a reference run): cif_start, block_start, items / loop_start, packet_start, items, packet_end, loop_end /
frames in document order, block_end, cif_end.  All-continue runs must deliver exactly that sequence with the right
payloads (codes, loop names, packet names, item name + value), the stored CIF must equal the document, the syntax
callbacks must report the data names in order, one keyword per loop_, white-space runs holding only white space and
comments, with monotone positions, and a syntax-only parse must produce the same sequences.  Handler programs
(exhaustive single answers; pairs in the thorough tier; random) are judged by an abstract interpreter of the documented
semantics with must / may / must-not classes for callbacks and stored / absent / don't-care classes for content."""
import re

from .. import dump as D
from .. import gen_cif as GC
from .. import names as N
from .. import parsing
from ..lib import *      # noqa: F401,F403
from ..monitors import LedgerScope
from .C14 import ANSWERS, answer_name, classify, short

MODULE = __name__


class Mismatch(Exception):
    def __init__(self, key, detail):
        Exception.__init__(self, detail)
        self.key = key
        self.detail = detail


# ---- abstract event tree from the abstract document --------------------------------------------------------------

class Ev:
    """one expected callback"""
    __slots__ = ('kind', 'payload', 'id', 'scalar')

    def __init__(self, kind, payload, evs):
        self.kind = kind
        self.payload = payload
        self.id = len(evs)
        self.scalar = False          # a scalar item's event (its data name is reported just before it)
        evs.append(self)


def build(doc):
    """returns (events in all-continue order, root structure)"""
    evs = []

    def container(blk, is_block):
        kind = 'block' if is_block else 'frame'
        node = dict(kind=kind, code=blk['code'], start=Ev(kind + '_start', blk['code'], evs), entries=[])
        for e in blk['entries']:
            if e[0] == 'item':
                node['entries'].append(dict(kind='item', name=e[1], value=GC.parsed_value(e[2]),
                                            ev=Ev('item', (e[1], GC.parsed_value(e[2])), evs)))
                evs[-1].scalar = True
            elif e[0] == 'loop':
                names = e[1]
                ln = dict(kind='loop', names=names, start=Ev('loop_start', (None, tuple(names)), evs), packets=[])
                for p in e[2]:
                    pk = dict(start=Ev('packet_start', None, evs), items=[])
                    for n, v in zip(names, p):
                        pk['items'].append(dict(name=n, value=GC.parsed_value(v), ev=Ev('item', (n, GC.parsed_value(v)), evs)))
                    pk['end'] = Ev('packet_end', tuple(names), evs)     # packets enumerate original spellings
                    ln['packets'].append(pk)
                ln['end'] = Ev('loop_end', (None, tuple(names)), evs)
                node['entries'].append(ln)
            else:
                node['entries'].append(container(e[1], False))
        node['end'] = Ev(kind + '_end', blk['code'], evs)
        return node
    root = dict(kind='cif', start=Ev('cif_start', None, evs), blocks=[])
    for b in doc:
        root['blocks'].append(container(b, True))
    root['end'] = Ev('cif_end', None, evs)
    return evs, root


# ---- abstract interpreter: program -> callback spec + content expectation ---------------------------------------------

def simulate(root, program=None, rng=None, density=0.0):
    """returns (spec [(event id, 'must'|'may')], expected rc, program, content) where content maps
    container path (tuple of codes) -> dict(status='stored'|'absent'|'dontcare'|'shell-may', items={name: (status, value)},
    loops=[(names, [(status, {name: value})], loop_status)], ended=bool)"""
    spec = []
    prog = dict(program or {})
    content = {}

    def ans(ev, flag):
        if flag == 'must' and rng is not None and ev.id not in prog and rng.random() < density:
            prog[ev.id] = rng.choice(ANSWERS)
        return prog.get(ev.id, 0) if flag == 'must' else 0

    def bypass_container(node, path):
        content[path] = dict(status='bypassed', items={}, loops=[])
        for e in node['entries']:
            if e['kind'] in ('block', 'frame'):
                bypass_container(e, path + (e['code'],))

    def sim_container(node, path):
        spec.append((node['start'].id, 'must'))
        a = ans(node['start'], 'must')
        c = classify(a)
        rec = dict(status='stored', items={}, loops=[], complete=False)
        content[path] = rec
        if c[0] in ('ERR', 'END'):
            rec['status'] = 'open'
            for e in node['entries']:
                if e['kind'] in ('block', 'frame'):
                    bypass_container(e, path + (e['code'],))
            return c
        if a in (TRAVERSE_SKIP_CURRENT, TRAVERSE_SKIP_SIBLINGS):
            bypass_container(node, path)
            spec.append((node['end'].id, 'may'))
            return ('SIB', None) if a == TRAVERSE_SKIP_SIBLINGS else ('CONT', None)
        end_flag = 'must'
        skip_rest = False
        for idx, e in enumerate(node['entries']):
            if skip_rest:
                if e['kind'] in ('block', 'frame'):
                    bypass_container(e, path + (e['code'],))
                elif e['kind'] == 'item':
                    rec['items'][e['name']] = ('absent', None)
                else:
                    rec['loops'].append((e['names'], [], 'absent'))
                continue
            if e['kind'] == 'item':
                spec.append((e['ev'].id, 'must'))
                ai = ans(e['ev'], 'must')
                ci = classify(ai)
                if ci[0] in ('ERR', 'END'):
                    rec['items'][e['name']] = ('absent', None)
                    rec['status'] = 'open'
                    mark_unparsed(node['entries'][idx + 1:], rec, path)
                    return ci
                if ai == 0:
                    rec['items'][e['name']] = ('stored', e['value'])
                else:
                    rec['items'][e['name']] = ('absent', None)
                s = ci
            elif e['kind'] == 'loop':
                s = sim_loop(e, rec)
                if s[0] in ('ERR', 'END'):
                    rec['status'] = 'open'
                    mark_unparsed(node['entries'][idx + 1:], rec, path)
                    return s
            else:
                s = sim_container(e, path + (e['code'],))
                if s[0] in ('ERR', 'END'):
                    rec['status'] = 'open'
                    mark_unparsed(node['entries'][idx + 1:], rec, path)
                    return s
            if s[0] == 'SIB':
                skip_rest = True
                end_flag = 'may'
        spec.append((node['end'].id, end_flag))
        rec['complete'] = True
        return classify(ans(node['end'], end_flag))

    def mark_unparsed(entries, rec, path):
        for e in entries:
            if e['kind'] in ('block', 'frame'):
                bypass_container(e, path + (e['code'],))
            elif e['kind'] == 'item':
                rec['items'][e['name']] = ('absent', None)
            else:
                rec['loops'].append((e['names'], [], 'absent'))

    def sim_loop(ln, rec):
        spec.append((ln['start'].id, 'must'))
        a = ans(ln['start'], 'must')
        c = classify(a)
        if c[0] in ('ERR', 'END'):
            rec['loops'].append((ln['names'], [], 'absent-or-empty'))
            return c
        if a in (TRAVERSE_SKIP_CURRENT, TRAVERSE_SKIP_SIBLINGS):
            rec['loops'].append((ln['names'], [], 'absent'))
            spec.append((ln['end'].id, 'may'))
            return ('SIB', None) if a == TRAVERSE_SKIP_SIBLINGS else ('CONT', None)
        pks = []
        lrec = (ln['names'], pks, 'stored')
        rec['loops'].append(lrec)
        end_flag = 'must'
        skip_rest = False
        for p in ln['packets']:
            if skip_rest:
                pks.append(('absent', None))
                continue
            spec.append((p['start'].id, 'must'))
            ap = ans(p['start'], 'must')
            cp = classify(ap)
            if cp[0] in ('ERR', 'END'):
                pks.append(('absent', None))
                rec['loops'][-1] = (ln['names'], pks, 'open')
                return cp
            if ap in (TRAVERSE_SKIP_CURRENT, TRAVERSE_SKIP_SIBLINGS):
                pks.append(('absent', None))
                spec.append((p['end'].id, 'may'))
                if ap == TRAVERSE_SKIP_SIBLINGS:
                    skip_rest = True
                    end_flag = 'may'
                continue
            dontcare = False
            pend_flag = 'must'
            skip_items = False
            for it in p['items']:
                if skip_items:
                    continue
                spec.append((it['ev'].id, 'must'))
                ai = ans(it['ev'], 'must')
                ci = classify(ai)
                if ci[0] in ('ERR', 'END'):
                    pks.append(('absent', None))
                    rec['loops'][-1] = (ln['names'], pks, 'open')
                    return ci
                if ai == TRAVERSE_SKIP_CURRENT:
                    dontcare = True
                elif ai == TRAVERSE_SKIP_SIBLINGS:
                    dontcare = True
                    skip_items = True
                    pend_flag = 'may'
            spec.append((p['end'].id, pend_flag))
            ae = ans(p['end'], pend_flag)
            ce = classify(ae)
            vals = dict((N.norm(it['name']), it['value']) for it in p['items'])
            if ce[0] in ('ERR', 'END'):
                pks.append(('absent', None))
                rec['loops'][-1] = (ln['names'], pks, 'open')
                return ce
            if ae == 0:
                pks.append(('dontcare' if dontcare else 'stored', vals))
            else:
                pks.append(('absent', None))
                if ae == TRAVERSE_SKIP_SIBLINGS:
                    skip_rest = True
                    end_flag = 'may'
        spec.append((ln['end'].id, end_flag))
        return classify(ans(ln['end'], end_flag))

    spec.append((root['start'].id, 'must'))
    a = ans(root['start'], 'must')
    c = classify(a)
    rc = CIF_OK
    if c[0] == 'ERR':
        rc = c[1]
        for b in root['blocks']:
            bypass_container(b, (b['code'],))
    elif c[0] == 'END':
        for b in root['blocks']:
            bypass_container(b, (b['code'],))
    elif a in (TRAVERSE_SKIP_CURRENT, TRAVERSE_SKIP_SIBLINGS):
        for b in root['blocks']:
            bypass_container(b, (b['code'],))
        spec.append((root['end'].id, 'may'))
    else:
        end_flag = 'must'
        skip_rest = False
        stopped = None
        for b in root['blocks']:
            if skip_rest or stopped:
                bypass_container(b, (b['code'],))
                continue
            s = sim_container(b, (b['code'],))
            if s[0] in ('ERR', 'END'):
                stopped = s
            elif s[0] == 'SIB':
                skip_rest = True
                end_flag = 'may'
        if stopped:
            if stopped[0] == 'ERR':
                rc = stopped[1]
        else:
            spec.append((root['end'].id, end_flag))
            ce = classify(ans(root['end'], end_flag))
            if ce[0] == 'ERR':
                rc = ce[1]
    return spec, rc, prog, content


# ---- judging the stored content ---------------------------------------------------------------------------------------

def index_dump(d):
    """('cif', containers) -> {path: (code, frames, loops)}"""
    out = {}

    def rec(c, path):
        p = path + (c[0],)
        out[p] = c
        for f in c[1]:
            rec(f, p)
    for b in d[1]:
        rec(b, ())
    return out


_EMPTIED = {}


def judge_content(dump, content, label, stats=None):
    idx = index_dump(dump)
    emptied = {}     # what became of the loops that were let start but whose packets were all bypassed
    for path, exp in content.items():
        got = idx.get(path)
        if exp['status'] == 'bypassed':
            # the (empty) shell may or may not exist; nothing inside it may
            if got is not None and (got[2] or got[1]):
                raise Mismatch('stored:bypassed-container-has-content:%s' % label, 'container %r was bypassed by the handler but holds %s' % (path, short(got)))
            continue
        if got is None:
            if exp['status'] == 'open' and not exp['items'] and not exp['loops']:
                continue
            if any(s == 'stored' for s, _ in exp['items'].values()) or any(st == 'stored' and any(ps == 'stored' for ps, _ in pk) for _, pk, st in exp['loops']) or exp['status'] == 'stored':
                raise Mismatch('stored:container-missing:%s' % label, 'container %r is missing from the parsed CIF' % (path,))
            continue
        scalars = {}
        loops_got = {}
        for cat, names, pk in got[2]:
            if cat == '':
                for n, v in (pk[0] if pk else ()):
                    scalars[n] = v
            else:
                loops_got[tuple(sorted(names))] = pk
        for name, (st, val) in exp['items'].items():
            nn = N.norm(name)
            if st == 'stored':
                if nn not in scalars or scalars[nn] != D.canon(val):
                    raise Mismatch('stored:item-missing:%s' % label, 'item %r of %r: stored %s, expected %s' % (name, path, short(scalars.get(nn)), short(val)))
            elif st == 'absent' and nn in scalars:
                raise Mismatch('stored:bypassed-item-present:%s' % label, 'item %r of %r was bypassed / not accepted by the handler but is stored' % (name, path))
        want_names = set(N.norm(n) for n in exp['items'])
        extra = set(scalars) - want_names
        if extra:
            raise Mismatch('stored:unexpected-item:%s' % label, 'unexpected items %r in %r' % (sorted(extra), path))
        for names, pks, lst in exp['loops']:
            key = tuple(sorted(names))
            gpk = loops_got.pop(key, None)
            if lst == 'absent':
                if gpk is not None:
                    raise Mismatch('stored:bypassed-loop-present:%s' % label, 'loop %r of %r was bypassed but exists' % (names, path))
                continue
            must = [D.canon_packet(v) for st, v in pks if st == 'stored']
            maybe = [D.canon_packet(v) for st, v in pks if st == 'dontcare']
            gl = list(gpk or ())
            if pks and not must and not maybe:
                emptied.setdefault('dropped' if gpk is None else 'kept-without-packets', []).append((path, tuple(names)))
            for m in must:
                if m in gl:
                    gl.remove(m)
                else:
                    raise Mismatch('stored:packet-missing:%s' % label, 'a packet of loop %r in %r that every handler accepted is not stored: %s' % (names, path, short(m)))
            # what is left may only be don't-care packets (possibly with some cells replaced by unknown values)
            if len(gl) > len(maybe):
                raise Mismatch('stored:bypassed-packet-present:%s' % label, 'loop %r in %r holds %d packet(s) that the handler bypassed: %s' % (names, path, len(gl) - len(maybe), short(gl)))
        if loops_got:
            raise Mismatch('stored:unexpected-loop:%s' % label, 'unexpected loops %r in %r' % (sorted(loops_got), path))
    if stats is not None:
        for k, v in emptied.items():
            stats[k] = stats.get(k, 0) + len(v)
    if stats is not None and len(emptied) > 1:
        # whether a loop all of whose packets were bypassed remains as a loop without packets is not stated (the parser
        # drops it with the other data-less loops when its container ends) - but a parse that ran to the end of the
        # document cannot do both: the fate of
        # such a loop would then hang on something other than the document and the handler's answers ("everything else
        # is stored as in an unfiltered parse")
        raise Mismatch('stored:all-bypassed-loop:inconsistent:%s' % label, 'loops whose packets were all bypassed: %r dropped but %r kept without packets in the same parse'
                       % (emptied['dropped'][:2], emptied['kept-without-packets'][:2]))


def canon_packet(vals):
    return tuple(sorted((n, D.canon(v)) for n, v in vals.items()))


D.canon_packet = canon_packet


# ---- running --------------------------------------------------------------------------------------------------------

def payload_ok(kind, want, got, syntax_only):
    if kind == 'item':
        return got is not None and got[0] == want[0] and D.canon(got[1]) == D.canon(want[1])
    if kind in ('block_start', 'block_end', 'frame_start', 'frame_end'):
        return got == want or (syntax_only and got is None)
    if kind == 'loop_start':
        return got is not None and tuple(got[1]) == tuple(want[1])
    if kind == 'loop_end':
        return got is None or (sorted(got[1]) == sorted(want[1]))
    if kind == 'packet_end':
        return got is not None and tuple(got) == tuple(want)
    return True


def run_program(L, data, evs, root, program, label, mode, info, collect=None, omit=()):
    """mode: 'store' | 'syntax'; omit: callback kinds whose handler member is NULL (not called, parse continues)"""
    if omit:
        program = dict((e, a) for e, a in program.items() if evs[e].kind not in omit)
    spec, want_rc, prog, content = simulate(root, program)
    spec0 = spec
    if omit:
        spec = [(eid, flag) for eid, flag in spec if evs[eid].kind not in omit]
    state = {'pos': 0, 'problems': []}

    def answer_fn(i, kind, payload):
        p = state['pos']
        while p < len(spec):
            eid, flag = spec[p]
            ev = evs[eid]
            if ev.kind == kind and payload_ok(kind, ev.payload, payload, mode == 'syntax'):
                state['pos'] = p + 1
                return prog.get(eid, 0) if flag == 'must' else 0
            if flag == 'must':
                state['problems'].append(('events:%s:must-missing:%s' % (ev.kind, label), 'expected callback %s %s, got %s %s' % (ev.kind, short(ev.payload), kind, short(payload))))
                state['pos'] = len(spec) + 1
                return TRAVERSE_END
            p += 1
        if state['pos'] <= len(spec):
            state['problems'].append(('events:%s:mustnot-present:%s' % (kind, label), 'callback %s %s was delivered although it is bypassed (or after the end)' % (kind, short(payload))))
            state['pos'] = len(spec) + 1
        return TRAVERSE_END

    watch_names = collect is None and (sum(program) + len(program) + len(omit)) % 3 == 0
    res = parsing.parse(L, data, parsing.make_opts(), 'new' if mode == 'store' else None, 'accept',
                        handler_answer_fn=answer_fn, syntax=(collect is not None or watch_names), omit=omit)
    try:
        for k, d in res.problems:
            raise Mismatch(k, d)
        if state['problems']:
            k, d = state['problems'][0]
            raise Mismatch(k, d + ' [program %r, %s]' % (describe(program, evs), mode))
        for eid, flag in spec[state['pos']:]:
            if flag == 'must':
                raise Mismatch('events:%s:must-missing:%s' % (evs[eid].kind, label), 'callback %s %s never came [program %r, %s]' % (evs[eid].kind, short(evs[eid].payload), describe(program, evs), mode))
        if res.errors:
            raise Mismatch('events:error-callback:%d:%s' % (res.errors[0][0], label), 'error %r reported on a well-formed document [program %r, %s]' % (res.errors[0], describe(program, evs), mode))
        if watch_names:
            # the data-name callback follows the same rule: a name is reported exactly where its scalar item / its
            # loop header is not bypassed (judged only on programs all of whose handlers are installed)
            full = dict(spec0)
            lo, hi = {}, {}
            for ev in evs:
                if getattr(ev, 'scalar', False):
                    defined = [ev.payload[0]]
                elif ev.kind == 'loop_start':
                    defined = list(ev.payload[1])
                else:
                    continue
                flag = full.get(ev.id)
                for nm in defined:
                    if flag == 'must':
                        lo[nm] = lo.get(nm, 0) + 1
                    if flag is not None:
                        hi[nm] = hi.get(nm, 0) + 1
            seen = {}
            for kind, line, col, text_, nh, ne in res.syntax:
                if kind == 'name':
                    seen[text_] = seen.get(text_, 0) + 1
            for nm in set(list(seen) + list(lo)):
                c = seen.get(nm, 0)
                if c > hi.get(nm, 0):
                    raise Mismatch('syntax:dataname:bypassed-name-reported:%s' % label, 'data name %r was reported %d time(s) to the data-name callback; at most %d of its items / loop headers are not bypassed [program %r, %s]' % (nm, c, hi.get(nm, 0), describe(program, evs), mode))
                if c < lo.get(nm, 0):
                    raise Mismatch('syntax:dataname:missing:%s' % label, 'data name %r was reported %d time(s), its items / loop headers that every handler lets through number %d [program %r, %s]' % (nm, c, lo.get(nm, 0), describe(program, evs), mode))
        if res.rc != want_rc:
            raise Mismatch('events:rc:%s:want%d:got%d' % (label, want_rc, res.rc), 'cif_parse returned %d, expected %d [program %r, %s]' % (res.rc, want_rc, describe(program, evs), mode))
        if mode == 'store':
            d = D.dump(L, res.cif)
            # (a parse that a handler ended or aborted leaves its open containers as they were at that moment)
            whole = want_rc == 0 and all(a in (0, TRAVERSE_SKIP_CURRENT, TRAVERSE_SKIP_SIBLINGS) for a in program.values())
            judge_content(d, content, label, _EMPTIED if whole else None)
        if collect is not None:
            collect['handler'] = [(k, p) for k, p in res.rec.events]
            collect['syntax'] = res.syntax
            collect['dump'] = D.dump(L, res.cif) if mode == 'store' else None
    finally:
        if res.cif:
            L.destroy(res.cif)


def run_categories(ctx, L, data, doc, rng, mode):
    """"Loop categories may be assigned via callback" (cif.h, misc/parser_callbacks.c): every loop_start callback tags
    the loop it is handed, and also tries the reserved category.  The property says nothing about categories, so the
    result codes of these calls and the categories found afterwards are only counted; what is judged is what the
    property does state: the callbacks and the stored items and structure are those of the document whatever a handler
    does with the handles it is given, in storing and in syntax-only mode (plus the always-on memory monitors: in
    syntax-only mode the handle is an unattached loop object that owns its category)."""
    assigned = []

    def hook(handle):
        k = len(assigned)
        cat = None if k % 5 == 4 else ('cat\u00e9_%d' % k if k % 2 else 'K%d' % k)
        rc = L.loop_set_category(handle, cat)
        rc2, names = L.loop_get_names(handle)
        rc3, back = L.loop_get_category(handle)
        assigned.append((tuple(sorted(N.norm(x) for x in names)), cat))
        ctx.add('category_calls_at_parse_time', '%s:set=%d:reported-back=%s' % (mode, rc, rc3 == CIF_OK and back == cat))
        if k % 7 == 3:
            rc4 = L.loop_set_category(handle, '')
            ctx.add('category_calls_at_parse_time', '%s:set-reserved=%d' % (mode, rc4))
    res = parsing.parse(L, data, parsing.make_opts(), 'new' if mode == 'store' else None, 'accept', loop_start_hook=hook)
    try:
        for k, d in res.problems:
            raise Mismatch(k, d)
        if res.rc != CIF_OK or res.errors:
            raise Mismatch('category:parse:%s' % mode, 'parse of a well-formed document whose loop_start handler assigns categories -> %d, errors %r' % (res.rc, res.errors[:2]))
        ctx.count('categories_assigned', len(assigned))
        if mode != 'store':
            return
        d = D.dump(L, res.cif)
        found = []

        def strip(c):
            loops = []
            for cat, names, pk in c[2]:
                if cat != '':
                    found.append((tuple(sorted(N.norm(x) for x in names)), cat))
                    cat = None
                loops.append((cat, names, pk))
            loops.sort(key=repr)
            return (c[0], tuple(strip(f) for f in c[1]), tuple(loops))
        stripped = ('cif', tuple(strip(b) for b in d[1]))
        want = GC.expected_dump(doc, 2)
        if stripped != want:
            raise Mismatch('category:content', 'assigning categories at loop_start changed the items or structure stored: %s' % D.first_difference(stripped, want))
        if sorted(found, key=repr) == sorted(assigned, key=repr):
            ctx.count('documents_whose_assigned_categories_were_all_found_stored')
    finally:
        if res.cif:
            L.destroy(res.cif)


def describe(program, evs):
    return [(i, evs[i].kind, short(evs[i].payload), a) for i, a in sorted(program.items())][:6]


WS_RE = re.compile(r'^(?:[ \t\n\r]|#[^\n\r]*)*$')


def check_syntax(text, doc, coll, label):
    """data names in order, one keyword per loop_, white space only in ws runs, monotone positions"""
    names = []

    def walk(blk):
        for e in blk['entries']:
            if e[0] == 'item':
                names.append(e[1])
            elif e[0] == 'loop':
                names.extend(e[1])
            else:
                walk(e[1])
    nloops = [0]

    def count(blk):
        for e in blk['entries']:
            if e[0] == 'loop':
                nloops[0] += 1
            elif e[0] == 'frame':
                count(e[1])
    for b in doc:
        walk(b)
        count(b)
    got_names = [s for k, line, col, s, nh, ne in coll['syntax'] if k == 'name']
    if got_names != names:
        raise Mismatch('syntax:dataname:sequence:%s' % label, 'data-name callbacks %r..., document names %r...' % (got_names[:6], names[:6]))
    kws = [s for k, line, col, s, nh, ne in coll['syntax'] if k == 'kw']
    if len(kws) != nloops[0]:
        raise Mismatch('syntax:keyword:count:%s' % label, 'keyword callbacks %r for %d loop_ keywords' % (kws[:5], nloops[0]))
    last = (0, 0)
    for k, line, col, s, nh, ne in coll['syntax']:
        if k == 'ws' and not WS_RE.match(s):
            raise Mismatch('syntax:whitespace:content:%s' % label, 'white-space callback carries %r' % s[:60])
        if line < 1:
            raise Mismatch('syntax:position:line-zero:%s' % label, '%s callback at line %d' % (k, line))
        if line < last[0]:
            raise Mismatch('syntax:position:not-monotone:%s' % label, '%s callback at line %d after line %d' % (k, line, last[0]))
        last = (line, col)
    total_ws = sum(len(s) for k, line, col, s, nh, ne in coll['syntax'] if k == 'ws')
    return len(got_names), len(kws), total_ws


def run_document(ctx, L, n):
    rng = ctx.rng('C15-doc', n)
    doc = GC.rand_doc(rng, 2, max_blocks=3)
    text, w = GC.write(rng, doc, 2)
    data = text.encode('utf-8')
    evs, root = build(doc)
    info = dict(index=n, text=text[:500])
    scope = LedgerScope(L).__enter__()
    try:
        # all-continue, storing: events, stored content, syntax callbacks
        c_store = {}
        run_program(L, data, evs, root, {}, 'all-continue', 'store', info, c_store)
        if c_store['dump'] != GC.expected_dump(doc, 2):
            raise Mismatch('stored:all-continue:content', 'with every handler continuing the stored CIF differs from the document: %s' % D.first_difference(c_store['dump'], GC.expected_dump(doc, 2)))
        nn, nk, nws = check_syntax(text, doc, c_store, 'store')
        ctx.count('datanames_checked', nn)
        ctx.count('keywords_checked', nk)
        ctx.count('whitespace_units_checked', nws)
        # syntax-only: identical handler / syntax / error sequences
        c_syn = {}
        run_program(L, data, evs, root, {}, 'all-continue', 'syntax', info, c_syn)
        check_syntax(text, doc, c_syn, 'syntax-only')
        h1 = [(k, p if k == 'item' else None) for k, p in c_store['handler']]
        h2 = [(k, p if k == 'item' else None) for k, p in c_syn['handler']]
        if h1 != h2:
            raise Mismatch('events:syntax-only:handler-sequence', 'handler callbacks differ between storing and syntax-only mode: %s' % D.first_difference(tuple(h1), tuple(h2), 'events'))
        s1 = [(k, line, col, s) for k, line, col, s, nh, ne in c_store['syntax']]
        s2 = [(k, line, col, s) for k, line, col, s, nh, ne in c_syn['syntax']]
        if s1 != s2:
            raise Mismatch('events:syntax-only:syntax-sequence', 'syntax callbacks differ between storing and syntax-only mode: %s' % D.first_difference(tuple(s1), tuple(s2), 'events'))
        ctx.count('all_continue_documents')
        ctx.count('callbacks_in_documents', len(evs))
        run_categories(ctx, L, data, doc, rng, 'store')
        run_categories(ctx, L, data, doc, rng, 'syntax')
        # programs
        nev = len(evs)
        progs = []
        for i in range(nev):
            for a in ANSWERS:
                progs.append(('single:%s:%s' % (evs[i].kind, answer_name(a)), {i: a}))
        # one answer given by every callback of a kind: whole layers of the document bypassed at once (every packet of
        # every loop, every loop, every frame ...), in containers that precede and follow others
        for kind in ('packet_start', 'packet_end', 'loop_start', 'loop_end', 'item', 'frame_start', 'block_start'):
            ids = [i for i in range(nev) if evs[i].kind == kind]
            for a in (TRAVERSE_SKIP_CURRENT, TRAVERSE_SKIP_SIBLINGS):
                if ids:
                    progs.append(('every:%s:%s' % (kind, answer_name(a)), dict((i, a) for i in ids)))
        if ctx.tier != 'quick':
            for _ in range(ctx.params['pair_programs']):
                i, j = sorted(rng.sample(range(nev), 2)) if nev >= 2 else (0, 0)
                p = {i: rng.choice(ANSWERS), j: rng.choice(ANSWERS)}
                spec, rc, pr, cont = simulate(root, p)
                if all(dict(spec).get(e) == 'must' for e in p):
                    progs.append(('pair', p))
        for _ in range(ctx.params['random_programs']):
            spec, rc, pr, cont = simulate(root, None, rng, rng.choice([0.03, 0.1, 0.3]))
            progs.append(('random', pr))
        for label, p in progs:
            for mode in ('store', 'syntax'):
                if mode == 'syntax' and label != 'random' and (sorted(p)[0] % 3):
                    continue        # syntax-only twin for a third of the enumerated programs and all random ones
                ctx.count('programs')
                try:
                    lab = label.split(':')[0] + ':' + (label.split(':')[2] if label.count(':') >= 2 else '')
                    run_program(L, data, evs, root, p, lab, mode, info)
                    ctx.count('programs_agreeing')
                    ctx.add('program_kinds', label + '/' + mode)
                except Mismatch as m:
                    ctx.violation(m.key, m.detail, dict(index=n, program=describe(p, evs), mode=mode, text=text[:600]))
        # the same with some handler members left NULL: each kind alone and random subsets; the all-continue parse,
        # every answer at the last callbacks and at a stride of the others, and the random programs
        from .. import walker
        omits = [(k,) for k in walker.KINDS] + [tuple(sorted(rng.sample(walker.KINDS, rng.randint(2, 6)))) for _ in range(3)]
        for omit in omits:
            sub = [('all-continue', {})]
            for i in range(nev):
                if i >= nev - 6 or (i + len(omit) + n) % (11 if ctx.tier == 'quick' else 3) == 0:
                    for a in ANSWERS:
                        sub.append(('single:%s:%s' % (evs[i].kind, answer_name(a)), {i: a}))
            sub += [pp for pp in progs if pp[0] == 'random'][:2]
            for label, p in sub:
                mode = 'store' if (len(p) + len(omit) + n) % 3 else 'syntax'
                ctx.count('programs')
                ctx.count('programs_with_null_handler_members')
                try:
                    lab = 'null-member:' + label.split(':')[0] + ':' + (label.split(':')[2] if label.count(':') >= 2 else '')
                    run_program(L, data, evs, root, p, lab, mode, info, omit=omit)
                    ctx.count('programs_agreeing')
                except Mismatch as m:
                    ctx.violation(m.key, m.detail, dict(index=n, program=describe(p, evs), mode=mode, null_members=list(omit), text=text[:600]))
        ctx.sample(dict(index=n, callbacks=nev, programs=len(progs), text=text[:200]), 3)
    except Mismatch as m:
        ctx.violation(m.key, m.detail, info)
    for suffix, detail in scope.finish():
        ctx.violation(suffix, detail, info)
    ctx.drain_events(info)


def worker(ctx):
    L = ctx.L
    ndoc = ctx.params['documents']
    if ctx.params.get('_single') is not None:
        ctx.single = ctx.params['_single']
    for i in ctx.cases(ndoc):
        ctx.begin(i)
        ctx.count('documents')
        run_document(ctx, L, i)
        for k, v in _EMPTIED.items():
            ctx.count('loops_with_all_packets_bypassed_' + k.replace('-', '_'), v)
        _EMPTIED.clear()


def run(env):
    ndoc = 96 if env.quick else 2000
    res = env.run_pool(MODULE, dict(documents=ndoc, random_programs=20 if env.quick else 60, pair_programs=60),
                       nshards=16, case_timeout=600, total_timeout=3000 if env.quick else 30000)
    inconclusive = list(res.inconclusive)
    if res.count('documents') < ndoc and not res.violations:
        inconclusive.append('only %d of %d documents ran' % (res.count('documents'), ndoc))
    return dict(
        level='exploration',
        coverage=dict(
            evaluations=res.count('programs') + 2 * res.count('all_continue_documents'),
            distinct_nontrivial=res.count('programs_agreeing'),
            rule='one evaluation = one parse of a generated document under one handler program in storing or '
                 'syntax-only mode (plus the two all-continue parses per document); programs are distinct by '
                 'construction; non-trivial = callbacks, return value and stored content all as the abstract '
                 'interpreter prescribes',
            samples=res.samples, documents=res.count('documents'),
            callbacks_in_documents=res.count('callbacks_in_documents'),
            datanames_checked=res.count('datanames_checked'), keywords_checked=res.count('keywords_checked'),
            whitespace_units_checked=res.count('whitespace_units_checked'),
            programs_run_with_null_handler_members=res.count('programs_with_null_handler_members'),
            loops_with_all_packets_bypassed_dropped=res.count('loops_with_all_packets_bypassed_dropped'),
            loops_with_all_packets_bypassed_kept_without_packets=res.count('loops_with_all_packets_bypassed_kept_without_packets'),
            categories_assigned_in_loop_start_callbacks=res.count('categories_assigned'),
            documents_whose_assigned_categories_were_all_found_stored=res.count('documents_whose_assigned_categories_were_all_found_stored'),
            category_calls_at_parse_time_observed_not_judged=sorted(res.sets.get('category_calls_at_parse_time', ())),
            program_kinds=sorted(res.sets.get('program_kinds', ()))[:120], crashes=res.crashes),
        violations=res.violations, inconclusive=inconclusive,
        assumptions=['end callbacks of skipped elements and of parents after SKIP_SIBLINGS may or may not be delivered',
                     'a packet in which some item callback answered SKIP_CURRENT / SKIP_SIBLINGS may be stored, '
                     'stored with unknown cells, or dropped', 'the empty shell of a skipped block / frame may exist'])


def replay(env, rec):
    env.single = (rec.get('case') or {}).get('index')
    return run(env)
