"""C04 - a managed CIF behaves as the documented data model under any API history  (also carries C05's random part:
every failing call is followed by a full comparison of the real CIF with the unchanged model, and the connection must
not be left inside a transaction).

Random histories over 1-3 CIFs with name pools designed to collide (case variants, NFC/NFD, reordered marks, invalid
names), executed in lock-step with vp/cifmodel.py.  Result codes must lie in the model's acceptable set, queried
content must equal the model's, and full dumps (through the query API, not cif_walk) are compared at checkpoints,
after every failing call, and for every CIF at the end (isolation between CIFs)."""
from .. import cifmodel as CM
from .. import dump as D
from .. import gen_values as G
from .. import names as N
from .. import valmodel as VM
from ..cifdriver import Driver, Mismatch, variant
from ..lib import *      # noqa: F401,F403
from ..monitors import LedgerScope

MODULE = __name__

CODE_STEMS = N.codes()[:7] + N.codes()[-2:]
NAME_STEMS = N.item_names()[:9] + N.item_names()[-2:]
CATEGORIES = [None, None, '', 'cat', 'cat', 'Cat', 'other', 'é']


class History(Driver):
    def rand_code(self):
        r = self.rng.random()
        if r < 0.08:
            return self.rng.choice(N.INVALID_CODES)
        if r < 0.12:
            return self.rng.choice(N.VALID_EDGE_CODES)
        return self.rng.choice(self.rng.choice(CODE_STEMS)[1])

    def rand_name(self, bad=0.08):
        r = self.rng.random()
        if r < bad:
            return self.rng.choice(N.INVALID_NAMES)
        if r < bad + 0.03:
            return self.rng.choice(N.VALID_EDGE_NAMES)
        return self.rng.choice(self.rng.choice(NAME_STEMS)[1])

    def rand_value(self):
        return G.rand_value(self.rng, depth=self.rng.choice([0, 0, 1, 2]), width=3, maxlen=8)

    def pick_cif(self):
        return self.rng.randrange(len(self.cifs))

    def pick_container(self, ci):
        conts = self.cifs[ci][1].containers()
        return self.rng.choice(conts) if conts else None

    def pick_loop(self, ci):
        conts = [c for c in self.cifs[ci][1].containers() if c.loops]
        if not conts:
            return None, None
        c = self.rng.choice(conts)
        return c, self.rng.choice(c.loops)

    # ------------------------------------------------------------------------------------------------------
    def step(self):
        rng, L = self.rng, self.L
        ops = ['create_block'] * 3 + ['get_block', 'all_blocks', 'create_frame', 'create_frame', 'get_frame',
               'all_frames', 'get_code', 'destroy_container', 'create_loop', 'create_loop', 'create_loop',
               'cat_loop', 'item_loop', 'all_loops', 'prune', 'get_value', 'get_value', 'set_value', 'set_value',
               'set_value', 'set_value', 'remove_item', 'remove_item', 'loop_category', 'set_category', 'loop_names',
               'add_item', 'add_item', 'add_packet', 'add_packet', 'add_packet', 'add_packet', 'loop_destroy',
               'iterate', 'iterate', 'parse_into', 'parse_headerless', 'checkpoint', 'new_cif', 'scalar_cycle', 'recreate_pruned',
               'stale_loop', 'stale_container']
        op = rng.choice(ops)
        self.ctx.count('calls')
        ci = self.pick_cif()
        p, m = self.cifs[ci]
        if op == 'new_cif':
            if len(self.cifs) < 3:
                self.new_cif()
            return
        if op == 'create_block' or not m.blocks:
            code = self.rand_code()
            want = rng.random() < 0.5
            rcs, commit = CM.op_create_block(m, code)
            rc, h = L.create_block(p, code, want)
            if rc == CIF_OK:
                if not commit:
                    self.expect('cif_create_block', rc, rcs, repr(code))
                commit()
                if want:
                    rc2, got = L.get_code(h)
                    L.container_free(h)
                    if got != code:
                        raise Mismatch('state:get_code:spelling', 'block created as %r reports code %r' % (code, got))
            self.after_call(ci, 'cif_create_block(%r)' % code[:20], rc, rcs)
            return
        cont = self.pick_container(ci)
        if op == 'get_block':
            code = self.rand_code()
            rcs, mb = CM.op_get_block(m, code)
            rc, h = L.get_block(p, code, rng.random() < 0.7)
            if rc == CIF_OK and h:
                rc2, got = L.get_code(h)
                L.container_free(h)
                if mb is not None and got != mb.code:
                    raise Mismatch('state:get_block:spelling', 'block %r looked up as %r reports code %r' % (mb.code, code, got))
            self.after_call(ci, 'cif_get_block(%r)' % code[:20], rc, rcs, mutating=False)
        elif op == 'all_blocks':
            rc, hs = L.get_all_blocks(p)
            codes = []
            for h in hs:
                codes.append(L.get_code(h)[1])
                L.container_free(h)
            self.after_call(ci, 'cif_get_all_blocks', rc, {CIF_OK}, mutating=False)
            if sorted(codes) != sorted(b.code for b in m.blocks):
                raise Mismatch('state:get_all_blocks:set', 'blocks %r, model %r' % (sorted(codes), sorted(b.code for b in m.blocks)))
        elif op in ('create_frame', 'get_frame', 'all_frames', 'get_code'):
            ch = self.open_container(ci, cont)
            try:
                if op == 'create_frame':
                    code = self.rand_code()
                    rcs, commit = CM.op_create_frame(cont, code)
                    want = rng.random() < 0.5
                    rc, h = L.create_frame(ch, code, want)
                    if rc == CIF_OK:
                        if not commit:
                            self.expect('cif_container_create_frame', rc, rcs, repr(code))
                        commit()
                        if want:
                            ab = L.assert_block(h)
                            L.container_free(h)
                            if ab != CIF_ARGUMENT_ERROR:
                                raise Mismatch('model:cif_container_assert_block:6:%d' % ab, 'assert_block on a frame -> %d' % ab)
                    self.after_call(ci, 'cif_container_create_frame(%r)' % code[:20], rc, rcs)
                elif op == 'get_frame':
                    code = self.rand_code()
                    rcs, mf = CM.op_get_frame(cont, code)
                    rc, h = L.get_frame(ch, code, rng.random() < 0.7)
                    if rc == CIF_OK and h:
                        got = L.get_code(h)[1]
                        L.container_free(h)
                        if mf is not None and got != mf.code:
                            raise Mismatch('state:get_frame:spelling', 'frame %r reports code %r' % (mf.code, got))
                    self.after_call(ci, 'cif_container_get_frame(%r)' % code[:20], rc, rcs, mutating=False)
                elif op == 'all_frames':
                    rc, hs = L.get_all_frames(ch)
                    codes = []
                    for h in hs:
                        codes.append(L.get_code(h)[1])
                        L.container_free(h)
                    self.after_call(ci, 'cif_container_get_all_frames', rc, {CIF_OK}, mutating=False)
                    if sorted(codes) != sorted(f.code for f in cont.frames):
                        raise Mismatch('state:get_all_frames:set', 'frames %r, model %r' % (sorted(codes), sorted(f.code for f in cont.frames)))
                else:
                    rc, got = L.get_code(ch)
                    self.after_call(ci, 'cif_container_get_code', rc, {CIF_OK}, mutating=False)
                    if got != cont.code:
                        raise Mismatch('state:get_code:spelling', 'container %r reports code %r' % (cont.code, got))
                    ab = L.assert_block(ch)
                    want_ab = CIF_OK if cont.parent is None else CIF_ARGUMENT_ERROR
                    if ab != want_ab:
                        raise Mismatch('model:cif_container_assert_block:%d:%d' % (want_ab, ab), 'assert_block -> %d' % ab)
            finally:
                L.container_free(ch)
        elif op == 'destroy_container':
            if rng.random() < 0.6 and len(m.containers()) < 4:
                return
            ch = self.open_container(ci, cont)
            rcs, commit = CM.op_container_destroy(m, cont)
            rc = L.container_destroy(ch)
            if rc == CIF_OK:
                commit()
            else:
                L.container_free(ch)
            self.after_call(ci, 'cif_container_destroy(%r)' % cont.code[:20], rc, rcs)
            self.check_state(ci, 'state-after-destroy', 'cif_container_destroy')
        elif op == 'create_loop':
            cat = rng.choice(CATEGORIES)
            k = rng.choice([0, 1, 1, 2, 3, 4])
            names = [self.rand_name(0.05) for _ in range(k)]
            ch = self.open_container(ci, cont)
            try:
                rcs, commit = CM.op_create_loop(cont, cat, names)
                want = rng.random() < 0.5
                rc, lh = L.create_loop(ch, cat, names, want)
                if rc == CIF_OK:
                    if not commit:
                        self.expect('cif_container_create_loop', rc, rcs, repr((cat, names)))
                    commit()
                    if want:
                        L.loop_free(lh)
                self.after_call(ci, 'cif_container_create_loop(%r,%d names)' % (cat, k), rc, rcs, extra=repr(names)[:200])
            finally:
                L.container_free(ch)
        elif op in ('cat_loop', 'item_loop', 'all_loops', 'prune', 'get_value', 'set_value', 'remove_item'):
            ch = self.open_container(ci, cont)
            try:
                if op == 'cat_loop':
                    cat = rng.choice(CATEGORIES)
                    rcs, ml = CM.op_get_category_loop(cont, cat)
                    rc, lh = L.get_category_loop(ch, cat, rng.random() < 0.7)
                    if rc == CIF_OK and lh:
                        rc2, nm = L.loop_get_names(lh)
                        L.loop_free(lh)
                        if ml is not None and sorted(nm) != sorted(o for o, _ in ml.names):
                            raise Mismatch('state:get_category_loop:names', 'loop of category %r has names %r, model %r' % (cat, nm, ml.names))
                    self.after_call(ci, 'cif_container_get_category_loop(%r)' % cat, rc, rcs, mutating=False)
                elif op == 'item_loop':
                    name = self.rand_name()
                    rcs, ml = CM.op_get_item_loop(cont, name)
                    rc, lh = L.get_item_loop(ch, name, rng.random() < 0.7)
                    if rc == CIF_OK and lh:
                        rc2, cat = L.loop_get_category(lh)
                        rc3, nm = L.loop_get_names(lh)
                        L.loop_free(lh)
                        if ml is not None and (cat != ml.category or sorted(nm) != sorted(o for o, _ in ml.names)):
                            raise Mismatch('state:get_item_loop:loop', 'loop of %r: category %r names %r; model %r %r' % (name, cat, nm, ml.category, ml.names))
                    self.after_call(ci, 'cif_container_get_item_loop(%r)' % name[:20], rc, rcs, mutating=False)
                elif op == 'all_loops':
                    rc, lhs = L.get_all_loops(ch)
                    got = []
                    for lh in lhs:
                        got.append((L.loop_get_category(lh)[1], tuple(sorted(L.loop_get_names(lh)[1]))))
                        L.loop_free(lh)
                    self.after_call(ci, 'cif_container_get_all_loops', rc, {CIF_OK}, mutating=False)
                    want = [(l.category, tuple(sorted(o for o, _ in l.names))) for l in cont.loops]
                    if sorted(got, key=repr) != sorted(want, key=repr):
                        raise Mismatch('state:get_all_loops:set', 'loops %r, model %r' % (got, want))
                elif op == 'prune':
                    rcs, commit = CM.op_prune(cont)
                    rc = L.prune(ch)
                    if rc == CIF_OK:
                        commit()
                    self.after_call(ci, 'cif_container_prune', rc, rcs)
                    self.check_state(ci, 'state-after-prune', 'cif_container_prune')
                elif op == 'get_value':
                    name = self.rand_name()
                    rcs, vals = CM.op_get_value(cont, name)
                    mode = rng.choice(['new', 'into', 'none'])
                    into = self.mk(self.rand_value()) if mode == 'into' else None
                    rc, v = L.get_value(ch, name, into=into, want=(mode != 'none'))
                    got = None
                    if rc in (CIF_OK, CIF_AMBIGUOUS_ITEM) and mode != 'none':
                        if mode == 'into' and v != into:
                            raise Mismatch('state:get_value:pointer', 'the caller\'s value object was replaced')
                        got = self.read(v)
                    if v:
                        L.value_free(v)
                    elif into:
                        L.value_free(into)
                    self.after_call(ci, 'cif_container_get_value(%r)' % name[:20], rc, rcs, mutating=False)
                    if got is not None and vals is not None and got not in vals:
                        raise Mismatch('state:get_value:value', 'value of %r is %s, model has %s' % (name, D._short(got), D._short(vals)))
                elif op == 'set_value':
                    name = self.rand_name()
                    pv = self.rand_value() if rng.random() < 0.9 else None
                    rcs, commit = CM.op_set_value(cont, name, pv)
                    v = self.mk(pv)
                    rc = L.set_value(ch, name, v)
                    if v:
                        L.value_free(v)
                    if rc == CIF_OK:
                        if not commit:
                            self.expect('cif_container_set_value', rc, rcs, repr(name))
                        commit()
                    sl0 = cont.scalar_loop()
                    self.after_call(ci, 'cif_container_set_value(%r)' % name[:20], rc, rcs,
                                    pre='scalar-loop-after-vanished-packet' if (sl0 is not None and sl0.ghost) else None)
                else:
                    name = self.rand_name()
                    rcs, commit = CM.op_remove_item(cont, name)
                    rc = L.remove_item(ch, name)
                    if rc == CIF_OK:
                        if not commit:
                            self.expect('cif_container_remove_item', rc, rcs, repr(name))
                        commit()
                    self.after_call(ci, 'cif_container_remove_item(%r)' % name[:20], rc, rcs)
            finally:
                L.container_free(ch)
        elif op in ('loop_category', 'set_category', 'loop_names', 'add_item', 'add_packet', 'loop_destroy', 'iterate'):
            cont, ml = self.pick_loop(ci)
            if ml is None:
                return
            ch = self.open_container(ci, cont)
            lh = None
            try:
                lh = self.open_loop(ci, cont, ml, ch)
                if op == 'loop_category':
                    rc, cat = L.loop_get_category(lh)
                    self.after_call(ci, 'cif_loop_get_category', rc, {CIF_OK}, mutating=False)
                    if cat != ml.category:
                        raise Mismatch('state:loop_get_category:value', 'category %r, model %r' % (cat, ml.category))
                elif op == 'loop_names':
                    rc, nm = L.loop_get_names(lh)
                    self.after_call(ci, 'cif_loop_get_names', rc, {CIF_OK}, mutating=False)
                    if sorted(nm) != sorted(o for o, _ in ml.names):
                        raise Mismatch('state:loop_get_names:spelling', 'names %r, model %r' % (nm, ml.names))
                elif op == 'set_category':
                    cat = rng.choice(CATEGORIES)
                    rcs, commit = CM.op_set_category(cont, ml, cat)
                    rc = L.loop_set_category(lh, cat)
                    if rc == CIF_OK:
                        if not commit:
                            self.expect('cif_loop_set_category', rc, rcs, 'loop category %r -> %r' % (ml.category, cat))
                        commit()
                    self.after_call(ci, 'cif_loop_set_category(%r->%r)' % (ml.category, cat), rc, rcs)
                elif op == 'add_item':
                    name = self.rand_name()
                    pv = self.rand_value() if rng.random() < 0.85 else None
                    rcs, commit = CM.op_add_item(cont, ml, name, pv)
                    v = self.mk(pv)
                    rc = L.loop_add_item(lh, name, v)
                    if v:
                        L.value_free(v)
                    if rc == CIF_OK:
                        if not commit:
                            self.expect('cif_loop_add_item', rc, rcs, repr(name))
                        commit()
                    self.after_call(ci, 'cif_loop_add_item(%r)' % name[:20], rc, rcs)
                elif op == 'add_packet':
                    items = []
                    r = rng.random()
                    for o, n in ml.names:
                        items.append((variant(rng, o), self.rand_value()))
                    if r < 0.08:
                        items = []
                    elif r < 0.2:
                        items.insert(rng.randint(0, len(items)), (self.rand_name(0.0), self.rand_value()))   # maybe foreign
                    seen = set()
                    items = [(n, v) for n, v in items if not (N.norm(n) in seen or seen.add(N.norm(n)))]
                    rcs, commit = CM.op_add_packet(cont, ml, items)
                    rc, pk = L.packet_create([n for n, _ in items])
                    self.expect('cif_packet_create', rc, {CIF_OK})
                    for n, pv in items:
                        v = self.mk(pv)
                        r2 = L.packet_set(pk, n, v)
                        L.value_free(v)
                        self.expect('cif_packet_set_item', r2, {CIF_OK})
                    rc = L.loop_add_packet(lh, pk)
                    L.packet_free(pk)
                    if rc == CIF_OK:
                        if not commit:
                            self.expect('cif_loop_add_packet', rc, rcs, repr(items)[:200])
                        commit()
                    self.after_call(ci, 'cif_loop_add_packet(%d items, %s loop)' % (len(items), 'scalar' if ml.category == '' else 'plain'), rc, rcs,
                                    pre='scalar-loop-after-vanished-packet' if ml.ghost else None)
                elif op == 'loop_destroy':
                    if rng.random() < 0.5:
                        return
                    rcs, commit = CM.op_loop_destroy(cont, ml)
                    rc = L.loop_destroy(lh)
                    if rc == CIF_OK:
                        lh = None
                        commit()
                    self.after_call(ci, 'cif_loop_destroy', rc, rcs)
                    self.check_state(ci, 'state-after-destroy', 'cif_loop_destroy')
                else:
                    self.iterate(ci, cont, ml, lh)
            finally:
                if lh:
                    L.loop_free(lh)
                L.container_free(ch)
        elif op == 'parse_into':
            self.parse_into(ci)
        elif op == 'parse_headerless':
            self.parse_headerless(ci)
        elif op == 'checkpoint':
            self.check_state(ci, 'state-at-checkpoint', 'checkpoint')
        elif op == 'scalar_cycle':
            self.scalar_cycle(ci, cont)
        elif op == 'recreate_pruned':
            self.recreate_pruned(ci, cont)
        elif op == 'stale_loop':
            self.stale_loop(ci, cont)
        elif op == 'stale_container':
            if len(m.containers()) >= 3:
                self.stale_container(ci, m, cont)

    # ------------------------------------------------------------------------------------------------------
    def iterate(self, ci, cont, ml, lh):
        """walk the packets with an iterator, editing some, then close or abort"""
        L, rng = self.L, self.rng
        rc, it = L.loop_get_packets(lh)
        if not ml.packets:
            self.after_call(ci, 'cif_loop_get_packets(empty)', rc, {CIF_EMPTY_LOOP}, mutating=False)
            return
        self.note('cif_loop_get_packets -> %d' % rc)
        self.expect('cif_loop_get_packets', rc, {CIF_OK})
        norms = ml.norms()
        remaining = [dict(p) for p in ml.packets]
        result = []
        finish = rng.choice(['close', 'close', 'abort'])
        try:
            while True:
                if rng.random() < 0.3:
                    # into a packet of the caller's that holds none, some or all of the loop's items
                    sub = rng.sample(norms, rng.randint(0, len(norms)))
                    rc0, cpk = L.packet_create(sub)
                    rc, pk = L.it_next(it, 'reuse', cpk)
                    if rc != CIF_OK:
                        L.packet_free(cpk)
                    self.ctx.count('packets_delivered_into_a_caller_packet')
                else:
                    rc, pk = L.it_next(it, 'new')
                if rc == CIF_FINISHED:
                    break
                self.expect('cif_pktitr_next_packet', rc, {CIF_OK})
                rc2, pn = L.packet_names(pk)
                got = {}
                for n in pn:
                    rcg, e = L.packet_get(pk, n)
                    if rcg != CIF_OK:
                        L.packet_free(pk)
                        raise Mismatch('state:next_packet:item-not-retrievable', 'the delivered packet lists item %r but cif_packet_get_item answers %d' % (n, rcg))
                    got[n] = self.read(e)
                L.packet_free(pk)
                if sorted(got) != sorted(norms):
                    raise Mismatch('state:next_packet:names', 'packet items %r, loop items %r' % (sorted(got), sorted(norms)))
                match = None
                for cand in remaining:
                    if all(VM.canon(cand.get(n, CM.UNK)) == got[n] for n in norms):
                        match = cand
                        break
                if match is None:
                    raise Mismatch('state:next_packet:unknown-packet', 'iterator delivered a packet the model does not hold (or twice): %s' % D._short(got))
                remaining.remove(match)
                if rng.random() < 0.25:
                    self.bystander_call(ci, cont, ml)
                act = rng.choice(['keep', 'keep', 'update', 'remove', 'update-foreign'])
                if act == 'update-foreign':
                    # an item of the loop first, then one that is not the loop's: refused as a whole, nothing written
                    others = [nn for l2 in cont.loops if l2 is not ml for nn in l2.norms()]
                    foreign = rng.choice(others) if others and rng.random() < 0.7 else '_zz_not_in_any_loop'
                    own = rng.sample(norms, rng.randint(1, min(2, len(norms))))
                    r3, upk = L.packet_create(own + [foreign])
                    for n in own + [foreign]:
                        v = self.mk(self.rand_value())
                        L.packet_set(upk, n, v)
                        L.value_free(v)
                    r3 = L.it_update(it, upk)
                    L.packet_free(upk)
                    self.expect('cif_pktitr_update_packet(foreign item)', r3, {CIF_WRONG_LOOP})
                    self.ctx.count('iterator_updates_refused')
                    result.append(match)
                elif act == 'remove':
                    r3 = L.it_remove(it)
                    self.expect('cif_pktitr_remove_packet', r3, {CIF_OK})
                    # the packet is gone: until the next one is delivered there is nothing to update or remove
                    again = rng.choice(['none', 'none', 'remove', 'update'])
                    if again == 'remove':
                        r3 = L.it_remove(it)
                        self.expect('cif_pktitr_remove_packet(just removed)', r3, {CIF_MISUSE})
                        self.ctx.count('iterator_steps_refused_after_remove')
                    elif again == 'update':
                        n = rng.choice(norms)
                        r3, upk = L.packet_create([n])
                        v = self.mk(self.rand_value())
                        L.packet_set(upk, n, v)
                        L.value_free(v)
                        r3 = L.it_update(it, upk)
                        L.packet_free(upk)
                        self.expect('cif_pktitr_update_packet(just removed)', r3, {CIF_MISUSE})
                        self.ctx.count('iterator_steps_refused_after_remove')
                elif act == 'update':
                    n = rng.choice(norms)
                    pv = self.rand_value()
                    r3, upk = L.packet_create([n])
                    v = self.mk(pv)
                    L.packet_set(upk, n, v)
                    L.value_free(v)
                    r3 = L.it_update(it, upk)
                    L.packet_free(upk)
                    self.expect('cif_pktitr_update_packet', r3, {CIF_OK})
                    match = dict(match)
                    match[n] = pv
                    result.append(match)
                else:
                    result.append(match)
            if remaining:
                raise Mismatch('state:next_packet:missing-packet', '%d packet(s) were never delivered' % len(remaining))
        finally:
            rc = L.it_close(it) if finish == 'close' else L.it_abort(it)
        self.expect('cif_pktitr_' + finish, rc, {CIF_OK})
        if finish == 'close':
            ml.packets = result
        self.note('iterate(%s)' % finish)
        self.ctx.count('iterations')
        self.check_tx(ci, 'cif_pktitr_' + finish)
        self.check_state(ci, 'state-after-iterator', 'cif_pktitr_' + finish)

    def scalar_cycle(self, ci, cont):
        """add to the scalar loop after its packet was removed through an iterator"""
        L = self.L
        sl = cont.scalar_loop()
        if sl is None or not sl.packets:
            return
        ch = self.open_container(ci, cont)
        try:
            rc, lh = L.get_category_loop(ch, '')
            self.expect('cif_container_get_category_loop', rc, {CIF_OK})
            rc, it = L.loop_get_packets(lh)
            self.expect('cif_loop_get_packets', rc, {CIF_OK})
            rc, _ = L.it_next(it, 'null')
            self.expect('cif_pktitr_next_packet', rc, {CIF_OK})
            rc = L.it_remove(it)
            self.expect('cif_pktitr_remove_packet', rc, {CIF_OK})
            rc = L.it_close(it)
            self.expect('cif_pktitr_close', rc, {CIF_OK})
            sl.packets = []
            sl.partial = False
            L.loop_free(lh)
            self.note('scalar packet removed through iterator')
            self.check_state(ci, 'state-after-iterator', 'scalar-cycle-remove')
            # now a new scalar goes in again
            name = self.rand_name(0.0)
            pv = self.rand_value()
            rcs, commit = CM.op_set_value(cont, name, pv)
            v = self.mk(pv)
            rc = L.set_value(ch, name, v)
            L.value_free(v)
            if rc == CIF_OK and commit:
                commit()
            self.after_call(ci, 'cif_container_set_value(%r) after scalar removal' % name[:20], rc, rcs)
            self.ctx.count('scalar_cycles')
        finally:
            L.container_free(ch)

    def recreate_pruned(self, ci, cont):
        """re-create a name after its (empty) loop was pruned"""
        L = self.L
        name = self.rand_name(0.0)
        if cont.item_loop(name):
            return
        ch = self.open_container(ci, cont)
        try:
            rcs, commit = CM.op_create_loop(cont, 'pr', [name])
            rc, _ = L.create_loop(ch, 'pr', [name], False)
            if rc == CIF_OK and commit:
                commit()
            self.after_call(ci, 'cif_container_create_loop(prune-template)', rc, rcs)
            rcs, commit = CM.op_prune(cont)
            rc = L.prune(ch)
            if rc == CIF_OK:
                commit()
            self.after_call(ci, 'cif_container_prune', rc, rcs)
            pv = self.rand_value()
            rcs, commit = CM.op_set_value(cont, variant(self.rng, name), pv)
            v = self.mk(pv)
            nm2 = variant(self.rng, name)
            rcs, commit = CM.op_set_value(cont, nm2, pv)
            rc = L.set_value(ch, nm2, v)
            L.value_free(v)
            if rc == CIF_OK and commit:
                commit()
            sl0 = cont.scalar_loop()
            self.after_call(ci, 'cif_container_set_value(after prune)', rc, rcs,
                            pre='scalar-loop-after-vanished-packet' if (sl0 is not None and sl0.ghost) else None)
            self.ctx.count('recreate_after_prune')
        finally:
            L.container_free(ch)

    def bystander_call(self, ci, cont, ml):
        """While an iterator is open on loop `ml`: a read-only call on something else, or the request for a second
        iterator on another loop.  Whatever it answers, the open iterator's transaction, position and pending changes
        are not its business (the rest of the walk and the model comparison after close / abort show the damage)."""
        L, rng = self.L, self.rng
        p, m = self.cifs[ci]
        others = [(c, l) for c in m.containers() for l in c.loops if l is not ml]
        which = rng.choice(['names', 'names', 'category', 'second-iterator', 'second-iterator', 'all-blocks', 'all-frames'])
        label = which
        if which in ('names', 'category', 'second-iterator'):
            if not others:
                return
            c2, l2 = rng.choice(others)
            ch2 = self.open_container(ci, c2)
            lh2 = None
            try:
                lh2 = self.open_loop(ci, c2, l2, ch2)
                if which == 'names':
                    rc, nm = L.loop_get_names(lh2)
                    self.expect('cif_loop_get_names(during iteration)', rc, {CIF_OK})
                    if sorted(nm) != sorted(o for o, _ in l2.names):
                        raise Mismatch('state:loop_get_names:spelling', 'names %r, model %r (asked while another loop is iterated)' % (nm, l2.names))
                elif which == 'category':
                    rc, cat = L.loop_get_category(lh2)
                    self.expect('cif_loop_get_category(during iteration)', rc, {CIF_OK})
                    if cat != l2.category:
                        raise Mismatch('state:loop_get_category:value', 'category %r, model %r' % (cat, l2.category))
                else:
                    rc, it2 = L.loop_get_packets(lh2)
                    self.note('cif_loop_get_packets(second iterator) -> %d' % rc)
                    if rc == CIF_OK:
                        # not what this implementation does, and not forbidden: finish it at once
                        self.ctx.count('second_iterators_granted')
                        L.it_close(it2)
                    else:
                        self.expect('cif_loop_get_packets(second iterator)', rc, {CIF_ERROR} if l2.packets else {CIF_ERROR, CIF_EMPTY_LOOP})
            finally:
                if lh2:
                    L.loop_free(lh2)
                L.container_free(ch2)
        elif which == 'all-blocks':
            rc, hs = L.get_all_blocks(p)
            codes = []
            for h in hs:
                codes.append(L.get_code(h)[1])
                L.container_free(h)
            self.expect('cif_get_all_blocks(during iteration)', rc, {CIF_OK})
            if sorted(codes) != sorted(b.code for b in m.blocks):
                raise Mismatch('state:get_all_blocks:set', 'blocks %r, model %r' % (sorted(codes), sorted(b.code for b in m.blocks)))
        else:
            c2 = rng.choice(m.containers())
            ch2 = self.open_container(ci, c2)
            try:
                rc, hs = L.get_all_frames(ch2)
                codes = []
                for h in hs:
                    codes.append(L.get_code(h)[1])
                    L.container_free(h)
                self.expect('cif_container_get_all_frames(during iteration)', rc, {CIF_OK})
                if sorted(codes) != sorted(f.code for f in c2.frames):
                    raise Mismatch('state:get_all_frames:set', 'frames %r, model %r' % (sorted(codes), sorted(f.code for f in c2.frames)))
            finally:
                L.container_free(ch2)
        if L.in_transaction(p) != 1:
            raise Mismatch('autocommit:%s:enclosing-transaction-lost' % label,
                           'a %s call made while a packet iterator was open ended the iterator\'s transaction' % label)
        self.ctx.count('calls_made_during_iteration')

    def stale_loop(self, ci, cont):
        """operations through a loop handle whose loop no longer exists must fail and change nothing"""
        L, rng = self.L, self.rng
        if not cont.loops:
            return
        ml = rng.choice(cont.loops)
        ch = self.open_container(ci, cont)
        try:
            stale = self.open_loop(ci, cont, ml, ch)
            killer = self.open_loop(ci, cont, ml, ch)
            rc = L.loop_destroy(killer)
            self.expect('cif_loop_destroy', rc, {CIF_OK})
            cont.loops.remove(ml)
            which = rng.choice(['get_packets', 'destroy', 'set_category', 'add_packet', 'add_item', 'get_names'])
            anyerr = set(DEFINED_CODES) - {CIF_OK, CIF_FINISHED}
            if which == 'get_packets':
                rc, it = L.loop_get_packets(stale)
                if rc == CIF_OK:
                    L.it_abort(it)
                self.after_call(ci, 'cif_loop_get_packets(stale)', rc, {CIF_INVALID_HANDLE})
            elif which == 'destroy':
                rc = L.loop_destroy(stale)
                if rc == CIF_OK:
                    stale = None
                self.after_call(ci, 'cif_loop_destroy(stale)', rc, anyerr)
            elif which == 'set_category':
                rc = L.loop_set_category(stale, 'zz')
                self.after_call(ci, 'cif_loop_set_category(stale)', rc, anyerr)
            elif which == 'add_packet':
                n = ml.names[0][0]
                rc, pk = L.packet_create([n])
                rc = L.loop_add_packet(stale, pk)
                L.packet_free(pk)
                self.after_call(ci, 'cif_loop_add_packet(stale)', rc, anyerr)
            elif which == 'add_item':
                rc = L.loop_add_item(stale, '_stale_new', None)
                self.after_call(ci, 'cif_loop_add_item(stale)', rc, anyerr)
            else:
                rc, nm = L.loop_get_names(stale)
                self.after_call(ci, 'cif_loop_get_names(stale)', rc, anyerr, mutating=False)
            if stale:
                L.loop_free(stale)
            self.check_state(ci, 'changed-on-failure', 'stale-handle %s' % which)
            self.ctx.count('stale_handle_cases')
        finally:
            L.container_free(ch)

    def stale_container(self, ci, m, cont):
        """A handle on a data block / save frame that was destroyed through another handle.  The documentation leaves
        the result of using it open (CIF_INVALID_HANDLE "may" be returned), so only what the property states is judged:
        the call returns a defined code, leaves no transaction open, and the CIF stays exactly the model."""
        L, rng = self.L, self.rng
        stale = self.open_container(ci, cont)
        killer = self.open_container(ci, cont)
        rcs, commit = CM.op_container_destroy(m, cont)
        rc = L.container_destroy(killer)
        if rc != CIF_OK:
            L.container_free(killer)
            L.container_free(stale)
            self.after_call(ci, 'cif_container_destroy', rc, rcs)
            return
        commit()
        which = rng.choice(['all_loops', 'all_frames', 'create_frame', 'create_loop', 'set_value', 'get_value', 'item_loop',
                            'cat_loop', 'remove_item', 'prune', 'destroy', 'get_code'])
        anyrc = set(DEFINED_CODES) - {CIF_FINISHED}
        if which == 'all_loops':
            rc, loops = L.get_all_loops(stale)
            for l in loops or []:
                L.loop_free(l)
        elif which == 'all_frames':
            rc, frames = L.get_all_frames(stale)
            for f in frames or []:
                L.container_free(f)
        elif which == 'create_frame':
            rc, h = L.create_frame(stale, 'stale_child', True)
            if rc == CIF_OK and h:
                L.container_free(h)
        elif which == 'create_loop':
            rc, h = L.create_loop(stale, 'stale_cat', ['_stale1', '_stale2'], True)
            if rc == CIF_OK and h:
                L.loop_free(h)
        elif which == 'set_value':
            v = self.mk(self.rand_value())
            rc = L.set_value(stale, '_stale_item', v)
            L.value_free(v)
        elif which == 'get_value':
            rc, v = L.get_value(stale, '_stale_item')
            if rc == CIF_OK and v:
                L.value_free(v)
        elif which == 'item_loop':
            rc, h = L.get_item_loop(stale, '_stale_item')
            if rc == CIF_OK and h:
                L.loop_free(h)
        elif which == 'cat_loop':
            rc, h = L.get_category_loop(stale, '')
            if rc == CIF_OK and h:
                L.loop_free(h)
        elif which == 'remove_item':
            rc = L.remove_item(stale, '_stale_item')
        elif which == 'prune':
            rc = L.call('cif_container_prune', stale)
        elif which == 'get_code':
            rc, code = L.get_code(stale)
        else:
            rc = L.container_destroy(stale)
            if rc in (CIF_OK, CIF_INVALID_HANDLE):
                stale = None        # the handle is released whenever the statement ran, whatever it found
        self.note('%s(stale container) -> %d' % (which, rc))
        self.expect('%s(stale container)' % which, rc, anyrc)
        if stale:
            L.container_free(stale)
        self.check_tx(ci, '%s(stale container)' % which)
        self.check_state(ci, 'changed-on-failure', 'stale-container %s' % which)
        self.ctx.count('stale_container_cases')
        self.ctx.add('stale_container_results', '%s:%d' % (which, rc))

    def parse_headerless(self, ci):
        """data that precede any block header go, by the documented recovery, into a block with the empty code - a
        code cif_create_block() refuses.  From then on that block is an object of this CIF like any other: listed,
        looked up under its code, given more items by the next such parse, taken into account by every later call"""
        from .. import parsing
        L, rng = self.L, self.rng
        p, m = self.cifs[ci]
        b = m.find_block('')
        sl = b.scalar_loop() if b is not None else None
        if sl is not None and (sl.ghost or not sl.packets):
            return      # (the recorded finding about a scalar loop that lost its packet: not exercised again here)
        k = self.ctx.counters.get('parse_serial', 0) + 1
        self.ctx.counters['parse_serial'] = k
        nm = '_hl%d.%s' % (k, rng.choice(['Aa', 'b', 'X']))
        val = 'h%d' % rng.randint(0, 99)
        # ... and a data name the block already holds (scalar or looped, spelled in another case) is a duplicate:
        # reported, its value parsed and dropped, what is stored stays as it is
        held = [orig for lp in b.loops for (orig, norm) in lp.names] if b is not None else []
        short = [h for h in held if len(h) < 1000]       # (the line must stay within the length limit)
        dup = rng.choice(short).swapcase() if short and rng.random() < 0.7 else None
        text = '#\\#CIF_2.0\n%s %s\n' % (nm, val)
        want = [CIF_NO_BLOCK_HEADER]
        if dup is not None and N.norm(dup) in [N.norm(h) for h in held] and not any(ord(c) <= 0x20 for c in dup):
            text += '%s dup%d\n' % (dup, k)
            want.append(CIF_DUP_ITEMNAME)
            self.ctx.count('duplicate_names_parsed_into_existing')
        res = parsing.parse(L, text.encode('utf-8'), parsing.make_opts(), p, 'accept')
        codes = [e[0] for e in res.errors]
        self.note('cif_parse(header-less text into) -> %d, errors %r' % (res.rc, codes))
        self.expect('cif_parse', res.rc, {CIF_OK}, text, pre='headerless')
        if codes != want:
            raise Mismatch('model:cif_parse:headerless:errors', 'header-less text parsed into CIF %d: errors %r reported, expected %r' % (ci, codes, want))
        if b is None:
            b = CM.MContainer('')
            m.blocks.append(b)
        rcs, commit = CM.op_set_value(b, nm, ('char', val, False))
        commit()
        # (the parser drops the loops without data of every container it closes)
        rcs, commit = CM.op_prune(b)
        commit()
        self.check_tx(ci, 'cif_parse')
        self.check_state(ci, 'state-after-parse', 'cif_parse(header-less into existing)')
        self.ctx.count('headerless_parses_into_existing')

    def parse_into(self, ci):
        """parse a small well-formed document with fresh block codes into the existing CIF"""
        L, rng = self.L, self.rng
        p, m = self.cifs[ci]
        k = self.ctx.counters.get('parse_serial', 0) + 1
        self.ctx.counters['parse_serial'] = k
        code = 'pz%d_%d' % (k, rng.randint(0, 999))
        if m.find_block(code):
            return
        items = []
        text = '#\\#CIF_2.0\ndata_%s\n' % code
        b = CM.MContainer(code)
        sl = CM.MLoop('', [])
        for j in range(rng.randint(1, 3)):
            nm = '_p%d.%s' % (j, rng.choice(['Aa', 'b', 'X']))
            val = 'v%d' % rng.randint(0, 99)
            text += '%s %s\n' % (nm, val)
            sl.names.append((nm, N.norm(nm)))
            items.append((N.norm(nm), ('char', val, False)))
        sl.packets.append(dict(items))
        b.loops.append(sl)
        if rng.random() < 0.6:
            text += 'loop_\n _l.one\n _l.Two\n 1 \'a b\'\n 2 ?\n'
            ll = CM.MLoop(None, [('_l.one', '_l.one'), ('_l.Two', '_l.two')])
            ll.packets.append({'_l.one': ('char', '1', False), '_l.two': ('char', 'a b', True)})
            ll.packets.append({'_l.one': ('char', '2', False), '_l.two': ('unk',)})
            b.loops.append(ll)
        rc, p2 = L.parse_bytes(text.encode('utf-8'), None, target=p)
        self.note('cif_parse(into) -> %d' % rc)
        self.expect('cif_parse', rc, {CIF_OK}, text)
        m.blocks.append(b)
        self.check_tx(ci, 'cif_parse')
        self.check_state(ci, 'state-after-parse', 'cif_parse(into existing)')
        self.ctx.count('parses_into_existing')


def run_case(ctx, i, drop_prefixes=()):
    L = ctx.L
    rng = ctx.rng('C04', i)
    scope = LedgerScope(L).__enter__()
    h = History(L, rng, ctx)
    nsteps = rng.choice([40, 60, 90, 120])
    case = dict(index=i, steps=nsteps)
    try:
        h.new_cif()
        if rng.random() < 0.4:
            h.new_cif()
        for k in range(nsteps):
            h.step()
            if k % 10 == 9:
                h.check_state(h.pick_cif(), 'state-at-checkpoint', 'periodic')
        for ci in range(len(h.cifs)):
            h.check_state(ci, 'state-at-end', 'final')
        ctx.count('histories_completed')
        ctx.add('model_states', str(hash(tuple(m.dump() for _, m in h.cifs)) & 0xffffffff))
    except Mismatch as mm:
        case['recent'] = h.log[-15:]
        if mm.key.startswith(tuple(drop_prefixes)) if drop_prefixes else False:
            ctx.count('histories_abandoned_on_result_code_mismatch')     # judged by C04, not here
        else:
            ctx.violation(mm.key, mm.detail, case)
    finally:
        try:
            h.destroy_all()
        except Exception:
            pass
    for suffix, detail in scope.finish():
        case['recent'] = h.log[-15:]
        ctx.violation(suffix, detail, case)
    ctx.drain_events(case)
    ctx.sample(dict(index=i, steps=nsteps, first_calls=h.log[:12]), 3)


def wide_loop_case(ctx, i):
    """A loop of 120-700 items (the per-packet name tables of the library grow several times on the way): created,
    filled with two packets, enumerated, iterated into fresh and into caller packets, one item set for all packets,
    one item removed - every answer compared with what was put in."""
    L = ctx.L
    n = (120, 150, 260, 400, 700)[(i // 40) % 5]
    case = dict(index=i, kind='wide-loop', items=n)
    scope = LedgerScope(L).__enter__()
    names = [('_item_%04d' % k) if k % 7 else ('_Item_%04d' % k) for k in range(n)]
    norms = [N.norm(x) for x in names]
    rc, cif = L.create()
    rc, b = L.create_block(cif, 'wide')
    lp = None
    live_pk = []
    try:
        rc, lp = L.create_loop(b, None if i % 2 else 'w', names)
        if rc != CIF_OK:
            raise Mismatch('model:cif_container_create_loop:0:%d:wide' % rc, 'creating a loop of %d items -> %d' % (n, rc))
        want = []
        for r in range(2):
            rc, pk = L.packet_create(names)
            live_pk.append(pk)
            row = {}
            for k, nm in enumerate(names):
                pv = ('char', 'r%d_%d' % (r, k), True) if k % 5 else ('numb', '%d.%d' % (r, k), False)
                v = L.make_value(pv)
                rcs = L.packet_set(pk, nm.upper() if k % 11 == 0 else nm, v)
                L.value_free(v)
                if rcs != CIF_OK:
                    raise Mismatch('model:cif_packet_set_item:0:%d:wide' % rcs, 'setting item %d of %d in a packet -> %d' % (k, n, rcs))
                row[norms[k]] = pv
            rcn, pn = L.packet_names(pk)
            if len(pn) != n:
                raise Mismatch('state:packet:names:wide', 'a packet created with %d names and set under equivalent spellings lists %d' % (n, len(pn)))
            lost = [nm for nm in names if L.packet_get(pk, nm)[0] != CIF_OK]
            if lost:
                raise Mismatch('state:packet:lookup:wide', '%d of the %d items of a packet are not found by name, first %r' % (len(lost), n, lost[0]))
            rc = L.loop_add_packet(lp, pk)
            L.packet_free(pk)
            live_pk.remove(pk)
            if rc != CIF_OK:
                raise Mismatch('model:cif_loop_add_packet:0:%d:wide' % rc, 'adding a packet of %d items -> %d' % (n, rc))
            want.append(row)

        def expect(what):
            d = D.dump_loop(L, lp)
            got = sorted((tuple(sorted((nm, D.canon(v)) for nm, v in p)) for p in d[2]), key=repr)
            exp = sorted((tuple(sorted((nm, D.canon(v)) for nm, v in row.items())) for row in want), key=repr)
            if sorted(N.norm(x) for x in d[1]) != sorted(row_names) or got != exp:
                raise Mismatch('state:wide-loop:%s' % what, 'a loop of %d items differs from what was stored after %s: %s' % (n, what, D.first_difference(tuple(got), tuple(exp))))
        row_names = list(norms)
        expect('add_packet')
        rc, it = L.loop_get_packets(lp)
        seen = 0
        cpk = L.packet_create(names[:n // 2])[1]
        while True:
            rc, pk = L.it_next(it, 'reuse', cpk) if seen % 2 else L.it_next(it, 'new')
            if rc != CIF_OK:
                break
            lost = [nm for nm in names if L.packet_get(pk, nm)[0] != CIF_OK]
            if lost:
                L.it_abort(it)
                raise Mismatch('state:next_packet:item-not-retrievable', '%d of %d items of a delivered packet are not found by name' % (len(lost), n))
            if not seen % 2:
                L.packet_free(pk)
            seen += 1
        L.packet_free(cpk)
        rc2 = L.it_close(it)
        if rc != CIF_FINISHED or seen != 2 or rc2 != CIF_OK:
            raise Mismatch('model:cif_pktitr_next_packet:1:%d:wide' % rc, 'iterating a loop of %d items: %d packets, then %d, close %d' % (n, seen, rc, rc2))
        v = L.make_value(('char', 'set for all', True))
        rc = L.set_value(b, names[n - 3], v)
        L.value_free(v)
        if rc != CIF_OK:
            raise Mismatch('model:cif_container_set_value:0:%d:wide' % rc, 'set_value of a looped item -> %d' % rc)
        for row in want:
            row[norms[n - 3]] = ('char', 'set for all', True)
        expect('set_value')
        rc = L.remove_item(b, names[1].upper())
        if rc != CIF_OK:
            raise Mismatch('model:cif_container_remove_item:0:%d:wide' % rc, 'remove_item -> %d' % rc)
        for row in want:
            del row[norms[1]]
        row_names.remove(norms[1])
        expect('remove_item')
        ctx.count('wide_loops_completed')
    except Mismatch as mm:
        ctx.violation(mm.key, mm.detail, case)
    except D.DumpError as e:
        ctx.violation('dump:%s:%d:wide' % (e.fn, e.rc), 'reading back a loop of %d items: %s' % (n, e), case)
    finally:
        for pk in live_pk:
            L.packet_free(pk)
        if lp:
            L.loop_free(lp)
        L.container_free(b)
        L.destroy(cif)
    for suffix, detail in scope.finish():
        ctx.violation(suffix, detail, case)
    ctx.drain_events(case)


def worker(ctx):
    total = ctx.params['histories']
    if ctx.params.get('_single') is not None:
        ctx.single = ctx.params['_single']
    for i in ctx.cases(total):
        ctx.begin(i)
        ctx.count('histories')
        if i % 40 == 7:
            wide_loop_case(ctx, i)
        run_case(ctx, i)


def coverage(res, n):
    return dict(
        evaluations=res.count('histories'),
        distinct_nontrivial=len(res.sets.get('model_states', ())),
        rule='one evaluation = one random API history (40-120 calls over 1-3 CIFs); distinct = distinct final '
             'model states (hash of the full model dump) among the histories that ran to the end with every call '
             'compared',
        samples=res.samples, calls=res.count('calls'), histories_completed=res.count('histories_completed'),
        failed_calls_checked_unchanged=res.count('failed_calls'), state_comparisons=res.count('state_comparisons'),
        iterations=res.count('iterations'), scalar_cycles=res.count('scalar_cycles'),
        recreate_after_prune=res.count('recreate_after_prune'), stale_handle_cases=res.count('stale_handle_cases'), stale_container_cases=res.count('stale_container_cases'), wide_loops_completed=res.count('wide_loops_completed'),
            stale_container_results=sorted(res.sets.get('stale_container_results', ())),
        parses_into_existing=res.count('parses_into_existing'), headerless_parses_into_existing=res.count('headerless_parses_into_existing'),
        duplicate_names_parsed_into_existing=res.count('duplicate_names_parsed_into_existing'),
        operation_result_matrix=sorted(res.sets.get('op_rc', ())),
        failing_call_kinds=sorted(res.sets.get('failed_kinds', ())), crashes=res.crashes)


def run(env):
    n = 3000 if env.quick else 60000
    res = env.run_pool(MODULE, dict(histories=n), nshards=16)
    inconclusive = list(res.inconclusive)
    if res.count('histories') < n and not res.violations:
        inconclusive.append('only %d of %d histories ran' % (res.count('histories'), n))
    return dict(level='exploration', coverage=coverage(res, n), violations=res.violations, inconclusive=inconclusive,
                assumptions=['name / code equivalence of the fixed pools is computed with Python unicodedata',
                             'packets with unspecified items are compared leniently by cif_container_get_value '
                             '(DESIGN.md section 5, item 4)'])


def replay(env, rec):
    env.single = (rec.get('case') or {}).get('index')
    return run(env)
