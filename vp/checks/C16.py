"""C16 - no leaks, no out-of-bounds access, no lasting global side effects.

The instruments (ASan, UBSan, the allocation ledger with handle counters and SQLite block count, the numeric-locale
and rounding-mode probes after every call) are active in every check; a report they produce while check Cxx runs is a
violation of that run.  This check replays a cross-section of the other checks' workloads - well-formed and hostile
parsing, writing and re-parsing, API histories with their error paths, iterator scripts, value / list / table / packet
scripts, number conversions, walks, parse-time callbacks - as *sessions* that end with full teardown, in each of the
four floating-point rounding modes (the mode is set around every library call and must be found unchanged after
it), and judges only what the instruments report: functional verdicts of the replayed workloads are ignored here
(they depend on the rounding mode and belong to their own checks).  A sample of hostile inputs is additionally run
through the uninstrumented parse runner under valgrind memcheck, which sees the uninitialised reads red zones cannot."""
import importlib

from ..lib import *      # noqa: F401,F403
from ..monitors import LedgerScope

MODULE = __name__
INSTRUMENT_PREFIXES = ('asan:', 'ubsan:', 'lsan:', 'ledger:', 'gstate:', 'handles:', 'sqlite-mem', 'unknown-free', 'crash:', 'hang:', 'valgrind:')
MODES = ['nearest', 'down', 'up', 'zero']

# (module, parameters of its worker, number of its cases, cases replayed per session)
WORKLOADS = [
    ('C01', dict(random_docs=4000), 4000, 6),
    ('C02', dict(cifs=8000), 8000, 5),
    ('C03', dict(inputs=6000), 6000, 4),
    ('C04', dict(histories=3000), 3000, 3),
    ('C06', dict(maxlen=4, budget=400), 400, 4),
    ('C07', dict(values=4000), 4000, 20),
    ('C10', dict(acceptance_len=3, conversion_cases=200, format_cases=200, per_case=40), 400, 3),
    ('C12', dict(styles=['lf']), 800, 12),
    ('C13', dict(cifs=6000), 6000, 5),
    ('C14', dict(fixtures=40, random_programs=4), 40, 1),
    ('C15', dict(documents=300, random_programs=3, pair_programs=1), 300, 1),
    ('C19', dict(histories=6000), 6000, 6),
    ('C05', dict(random_histories=600), 600, 3),
    ('C08', dict(nbase=2, step=97), 80, 2),
    ('C09', dict(pair_cases=100, pairs_per_case=200, api_cases=64, triples_per_case=60), 437, 3),
    ('C11', dict(), 2352, 40),
    ('C18', dict(maxlen=3, long_cases=64), 70, 1),
    # C16's own: strings whose normal form has another length than the string (buffer sizing of the normalisation code)
    ('own:normsizes', dict(), 0, 24),
]


class Proxy:
    """what a replayed worker sees instead of the pool context: a slice of its cases, and a sink that keeps only
    the instruments' findings"""

    def __init__(self, ctx, label, params, picks, mode, session=0):
        self._ctx = ctx
        self._session = session
        self._label = label
        self._picks = picks
        self._mode = mode
        self.params = dict(params, seed=ctx.seed, tier='quick')
        self.tier = 'quick'
        self.seed = ctx.seed
        self.single = None
        self.resume = None
        self.shard = 0
        self.nshards = 1
        self.counters = {}

    @property
    def L(self):
        return self._ctx.L

    def cases(self, total):
        for i in self._picks:
            if i < total:
                yield i

    def mine(self, i):
        return i in self._picks

    def begin(self, i, info=None):
        # a precondition class announced by the replayed workload keeps its place in the key of a crash
        if isinstance(info, dict) and info.get('key_suffix'):
            self._ctx.begin(self._session, dict(workload=self._label, mode=self._mode, key_suffix=info['key_suffix']))

    def rng(self, *key):
        return self._ctx.rng('C16', self._mode, *key)

    def violation(self, key, detail, case=None):
        self._ctx.count('replayed_verdicts')
        if key.startswith(INSTRUMENT_PREFIXES):
            self._ctx.violation(key, '[%s replay, rounding %s] %s' % (self._label, self._mode, detail), dict(workload=self._label, mode=self._mode, case=case))
        else:
            self._ctx.count('functional_verdicts_ignored')

    def count(self, name, n=1):
        self._ctx.count('replay:%s:%s' % (self._label, name), n) if name in ('parses', 'cifs', 'histories', 'inputs', 'values', 'cases') else None

    def add(self, *a):
        pass

    def maxi(self, *a):
        pass

    def sample(self, *a):
        pass

    def inconclusive(self, why):
        self._ctx.count('replayed_inconclusive')

    def drain_events(self, case=None, prefix=''):
        L = self._ctx.L
        n = 0
        for kind, fn, detail in L.events:
            self._ctx.violation('%s:%s:%s' % (kind, detail.split(':')[0], fn), '[%s replay, rounding %s] %s after %s: %s' % (self._label, self._mode, kind, fn, detail),
                                dict(workload=self._label, mode=self._mode, case=case))
            n += 1
        L.events.clear()
        return n


_SIZE_CHARS = None


def size_changing_chars():
    """characters whose NFC form, or whose name normal form, differs in length (UTF-16 units) from the character,
    selected with Python's tables (a selection, not an oracle), plus a sample of the others that change at all"""
    global _SIZE_CHARS
    if _SIZE_CHARS is None:
        import unicodedata
        u = lambda t: len(t.encode('utf-16-le', 'surrogatepass')) // 2
        changed, same = [], []
        for cp in range(0x110000):
            if 0xd800 <= cp <= 0xdfff:
                continue
            c = chr(cp)
            nfc = unicodedata.normalize('NFC', c)
            nfd = unicodedata.normalize('NFD', c)
            if nfc == c and nfd == c and c.casefold() == c:
                continue
            full = unicodedata.normalize('NFC', nfd.casefold())
            (changed if (u(nfc) != u(c) or u(full) != u(c)) else same).append(c)
        _SIZE_CHARS = changed + same[::37]
    return _SIZE_CHARS


def own_normsizes(proxy, L, picks):
    """each picked character, behind 0..11 ASCII characters (so that every allocation size class is met), goes through
    every entry point that normalises: table keys, packet names, cif_normalize, block codes and data names"""
    import ctypes as C
    chars = size_changing_chars()
    for i in picks:
        c = chars[i % len(chars)]
        for pad in range(12):
            key = 'k' * pad + c + ('z' if pad % 3 == 0 else '')
            scope = LedgerScope(L).__enter__()
            t = L.make_value(('table', ()))
            v = L.make_value(('char', 'v', True))
            L.call('cif_value_set_item_by_key', t, U(key), v)
            p = C.c_void_p()
            L.call('cif_value_get_item_by_key', t, U(key), C.byref(p))
            L.call('cif_value_set_item_by_key', t, U(key), None)
            L.table_keys(t)
            L.call('cif_value_remove_item_by_key', t, U(key), None)
            L.value_free(t)
            rc, pk = L.packet_create(['_' + key])
            if rc == CIF_OK:
                L.packet_set(pk, '_' + key, v)
                L.packet_names(pk)
                L.packet_remove(pk, '_' + key, want=False)
                L.packet_free(pk)
            L.normalize(key)
            L.normalize('_' + key, srclen=pad + 1)
            rc, cif = L.create()
            rc, blk = L.create_block(cif, key)
            if rc == CIF_OK:
                L.set_value(blk, '_' + key, v)
                rc, g = L.get_value(blk, '_' + key)
                if rc == CIF_OK:
                    L.value_free(g)
                L.container_free(blk)
            L.destroy(cif)
            L.value_free(v)
            proxy.drain_events(dict(char='U+%04X' % ord(c), pad=pad))
            for suffix, detail in scope.finish():
                proxy.violation(suffix, detail, dict(char='U+%04X' % ord(c), pad=pad))
        proxy._ctx.count('own_normsize_characters')


def sessions(nsessions):
    """session number -> (mode, workload index, slice number)"""
    out = []
    s = 0
    while len(out) < nsessions:
        for w in range(len(WORKLOADS)):
            for m in MODES:
                out.append((m, w, s))
                if len(out) >= nsessions:
                    return out
        s += 1
    return out


def worker(ctx):
    L = ctx.L
    plan = sessions(ctx.params['sessions'])
    if ctx.params.get('_single') is not None:
        ctx.single = ctx.params['_single']
    mods = {}
    for i in ctx.cases(len(plan)):
        mode, w, slice_no = plan[i]
        label, params, total, per = WORKLOADS[w]
        ctx.begin(i, dict(workload=label, mode=mode, slice=slice_no))
        ctx.count('sessions')
        ctx.add('modes', mode)
        ctx.add('workloads', label)
        rng = ctx.rng('C16-pick', i)
        if label.startswith('own:'):
            # systematic: slice after slice walks through the whole list
            base = (slice_no * len(MODES) + MODES.index(mode)) * per
            picks = list(range(base, base + per))
        else:
            picks = sorted(rng.sample(range(total), per))
            if label not in mods:
                mods[label] = importlib.import_module('vp.checks.' + label)
        proxy = Proxy(ctx, label, params, picks, mode, i)
        calls0 = L.ncalls
        scope = LedgerScope(L).__enter__()
        L.rounding = L.ROUND[mode] if mode != 'nearest' else None
        try:
            if label == 'own:normsizes':
                own_normsizes(proxy, L, picks)
            else:
                mods[label].worker(proxy)
        except Exception as e:      # a replayed harness may stumble where its oracle assumes the default rounding mode
            ctx.count('replayed_workload_exceptions')
            ctx.add('exception_kinds', type(e).__name__)
        finally:
            L.rounding = None
        proxy.drain_events(dict(index=i))
        for suffix, detail in scope.finish():
            ctx.violation(suffix, '[%s replay, rounding %s] %s' % (label, mode, detail), dict(index=i, workload=label, mode=mode))
        ctx.count('library_calls', L.ncalls - calls0)
        if i % 97 == 0:
            ctx.sample(dict(session=i, workload=label, mode=mode, cases=picks[:6]), 4)


def valgrind_stage(env):
    import base64
    import random
    from .. import fuzz
    from . import C03
    rng = random.Random(env.seed * 7919 + 11)
    n = 24 if env.quick else 300
    inputs = []
    for _ in range(n):
        label, base = C03.seed_input(rng)
        data, ops = C03.mutate(rng, base)
        if len(data) > 30000:
            data = data[:30000]
        inputs.append(bytes(rng.randrange(256) for _ in range(8)) + data)
    # line-terminator conversion at the edges of what a refill delivered: every fill of these ends in a CR (the code unit
    # behind it has never been written when the buffer is new), the last one at the very end of the buffer
    sel = bytes(8)
    inputs += [sel + b'data_a\r' + b'\r' * 9000 + b'_x 1\r', sel + b'data_a\r\n' + b'\r\n' * 5000 + b'_x 1\r\n',
               sel + b'data_a\r_t\r;' + b'ab\r' * 3000 + b';\r_x 1\r', sel + b'data_a\r' + b'\r' * 140000 + b'_x 1\r']
    st = fuzz.run_valgrind(inputs, procs=16)
    viols = [dict(t='viol', key=key, detail=detail, case=dict(artifact_b64=base64.b64encode(data).decode())) for key, detail, data in st['findings']]
    return st, viols


def run(env):
    n = 720 if env.quick else 18000
    res = env.run_pool(MODULE, dict(sessions=n), nshards=16, case_timeout=600, total_timeout=3000 if env.quick else 40000)
    inconclusive = list(res.inconclusive)
    if res.count('sessions') < n and not res.violations:
        inconclusive.append('only %d of %d sessions ran' % (res.count('sessions'), n))
    vg = dict(runs=0, timeouts=0)
    if env.single is None:
        vg, vviols = valgrind_stage(env)
        res.violations.extend(vviols)
        if vg['runs'] == 0:
            inconclusive.append('valgrind ran nothing')
    exc = res.count('replayed_workload_exceptions')
    return dict(
        level='exploration',
        coverage=dict(
            evaluations=res.count('sessions') + vg['runs'], distinct_nontrivial=res.count('sessions') - exc,
            rule='one evaluation = one session (a slice of one other check\'s workload, replayed under one rounding mode, '
                 'ending with full teardown and a ledger / handle / global-state audit) or one valgrind memcheck run of the '
                 'uninstrumented parse runner on one hostile input; sessions are distinct by (workload, mode, drawn case '
                 'indices); non-trivial = sessions whose replayed workload ran to its end',
            samples=res.samples, sessions=res.count('sessions'), library_calls_monitored=res.count('library_calls'),
            rounding_modes=sorted(res.sets.get('modes', ())), workloads=sorted(res.sets.get('workloads', ())),
            replayed_verdicts_seen=res.count('replayed_verdicts'), functional_verdicts_ignored=res.count('functional_verdicts_ignored'),
            replayed_workload_exceptions=exc, exception_kinds=sorted(res.sets.get('exception_kinds', ())),
            valgrind_runs=vg['runs'], valgrind_timeouts=vg['timeouts'], crashes=res.crashes),
        violations=res.violations, inconclusive=inconclusive,
        assumptions=['functional verdicts of the replayed workloads are ignored: their oracles assume the default rounding mode',
                     'a clean run is not memory safety: red zones miss intra-object overflows and reuse of freed memory; '
                     'memcheck covers the parser and writer only'])


def replay(env, rec):
    env.single = (rec.get('case') or {}).get('index')
    return run(env)
