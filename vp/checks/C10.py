"""C10 - number text and double values convert with correct rounding.

Oracle: exact rational arithmetic (fractions.Fraction; float(Fraction) is correctly rounded, round-half-even is done
on integers), cross-checked against Python's own correctly rounded float(text) - a disagreement between the two
oracles is a harness error, not a violation.
 1. acceptance: every string of length <= 5 (thorough 6) over {+ - . 0 1 9 e E ( ) x}, plus longer random ones:
    accepted exactly when it matches the numeric grammar, refused with CIF_INVALID_NUMBER leaving the value unchanged;
 2. text -> double: get_number / get_su equal the correctly rounded doubles of the exact decimal quantities (zero or
    normal-range magnitudes), on boundary-biased inputs: exact ties of 17-40 digit mantissas, neighbours of powers
    of two, 9/18/27-digit bignum boundaries, exponents -330..+310, zero padding, su of 1-12 digits;
 3. double -> text: init_numb (value x su x scale x leading-zero limit) and autoinit_numb (su rules) produce the
    correctly rounded digits at the requested / selected scale in the documented notation, and the text parses back
    to the same digits, scale and uncertainty."""
import itertools
import math
import re
from fractions import Fraction

from ..lib import *      # noqa: F401,F403
from ..monitors import LedgerScope

MODULE = __name__
ALPHABET = '+-.019eE()x'
NUM_RE = re.compile(r'\A([+-]?)([0-9]*)(\.?)([0-9]*)(?:[eE]([+-]?[0-9]+))?(?:\(([0-9]+)\))?\Z')
DBL_MIN = 2.2250738585072014e-308
DBL_MAX = 1.7976931348623157e308


def grammar_ok(t):
    m = NUM_RE.match(t)
    return bool(m) and (m.group(2) != '' or m.group(4) != '')


def decompose(t):
    """(sign, digits int, scale, su int or None) of an accepted text"""
    m = NUM_RE.match(t)
    sign, ip, dot, fp, ex, su = m.groups()
    e = int(ex) if ex else 0
    return (-1 if sign == '-' else 1), int((ip + fp) or '0'), len(fp) - e, (int(su) if su is not None else None)


def to_float(fr):
    try:
        return float(fr)
    except OverflowError:
        return math.inf


def exact(digits, scale):
    return Fraction(digits) * (Fraction(10) ** (-scale)) if abs(scale) < 5000 else None


def judged_range(x):
    return x == 0 or DBL_MIN <= abs(x) <= DBL_MAX


class NumDriver:
    def __init__(self, ctx):
        self.ctx = ctx
        self.L = ctx.L
        rc, self.v = self.L.value_create(KIND_UNK)

    def close(self):
        self.L.value_free(self.v)

    def parse(self, text):
        L = self.L
        p = L.malloc_ustr(text)
        rc = L.call('cif_value_parse_numb', self.v, p)
        if rc != CIF_OK:
            L.vp_free(p)
        return rc


def acceptance_case(ctx, nd, t):
    L = ctx.L
    # the value holds a sentinel so that "unchanged on refusal" is observable
    L.call('cif_value_copy_char', nd.v, U('sentinel'))
    rc = nd.parse(t)
    want = grammar_ok(t)
    ctx.count('acceptance_strings')
    if want:
        ctx.count('accepted')
    if (rc == CIF_OK) != want or (not want and rc != CIF_INVALID_NUMBER):
        ctx.violation('num:parse_numb:acceptance:%s' % ('refused-valid' if want else ('accepted-invalid' if rc == CIF_OK else 'wrong-code')),
                      'cif_value_parse_numb(%r) -> %d; the numeric grammar %s it' % (t, rc, 'accepts' if want else 'rejects'), dict(text=t))
        return
    got = L.read_value(nd.v)
    if want:
        if got != ('numb', t, False):
            ctx.violation('num:parse_numb:result', 'after parsing %r the value is %r' % (t, got), dict(text=t))
    elif got != ('char', 'sentinel', True):
        ctx.violation('num:parse_numb:modified-on-refusal', 'refused text %r modified the value: %r' % (t, got), dict(text=t))


def conversion_case(ctx, nd, t):
    """text -> doubles"""
    L = ctx.L
    if nd.parse(t) != CIF_OK:
        ctx.violation('num:parse_numb:acceptance:refused-valid', 'cif_value_parse_numb(%r) refused' % t, dict(text=t))
        return
    sign, digits, scale, su = decompose(t)
    if abs(scale) > 4000:
        # astronomically large exponents: only required not to misbehave
        L.value_number(nd.v)
        L.value_su(nd.v)
        ctx.count('huge_exponent_cases')
        return
    val = exact(digits, scale) * sign
    want = to_float(val)
    # cross-check of the oracle itself against the platform's correctly rounded conversion
    try:
        plain = float(re.sub(r'\(.*\)', '', t))
        if plain != want and not (math.isinf(plain) and math.isinf(want)):
            ctx.inconclusive('oracles disagree on %r: %r vs %r' % (t, plain, want))
            return
    except (ValueError, OverflowError):
        pass
    rc, d = L.value_number(nd.v)
    ctx.count('conversions')
    if rc != CIF_OK:
        ctx.violation('num:get_number:rc:%d' % rc, 'cif_value_get_number(%r) -> %d' % (t, rc), dict(text=t))
        return
    if judged_range(want):
        if d != want and not (d == 0 and want == 0):
            ctx.violation('num:get_number:%s' % ulp_class(d, want), 'cif_value_get_number(%r) = %s (%r), correctly rounded value %s (%r)' % (t, d.hex(), d, want.hex(), want), dict(text=t))
            return
        ctx.count('values_correctly_rounded')
    else:
        ctx.count('values_outside_normal_range')
    rc, s = L.value_su(nd.v)
    if rc != CIF_OK:
        ctx.violation('num:get_su:rc:%d' % rc, 'cif_value_get_su(%r) -> %d' % (t, rc), dict(text=t))
        return
    wsu = to_float(exact(su, scale)) if su is not None else 0.0
    if judged_range(wsu):
        if s != wsu:
            ctx.violation('num:get_su:%s' % ulp_class(s, wsu), 'cif_value_get_su(%r) = %s (%r), correctly rounded %s (%r)' % (t, s.hex(), s, wsu.hex(), wsu), dict(text=t))
            return
        ctx.count('su_correctly_rounded')


def ulp_class(got, want):
    if math.isnan(got) or math.isinf(got) or math.isinf(want):
        return 'non-finite'
    if want == 0 or got == 0:
        return 'zero-vs-nonzero'
    try:
        u = abs(got - want) / math.ulp(want)
    except OverflowError:
        return 'far-off'
    return 'off-by-1-ulp' if u <= 1.0 else ('off-by-2-ulp' if u <= 2 else 'far-off')


def round_half_even(fr):
    """Fraction -> nearest integer, ties to even"""
    n, d = fr.numerator, fr.denominator
    q, r = divmod(n, d)
    if 2 * r > d or (2 * r == d and q % 2 == 1):
        q += 1
    return q


def format_case(ctx, nd, val, su, scale, mlz, auto_rule=None):
    """double -> text"""
    L = ctx.L
    if auto_rule is None:
        rc = L.call('cif_value_init_numb', nd.v, val, su, scale, mlz)
        fn = 'init_numb'
    else:
        rc = L.call('cif_value_autoinit_numb', nd.v, val, su, auto_rule)
        fn = 'autoinit_numb'
    info = dict(val=val.hex(), su=su.hex(), scale=scale, mlz=mlz, rule=auto_rule)
    ctx.count('formattings')
    fv = Fraction(val)
    fs = Fraction(su)
    if auto_rule is not None:
        if su == 0:
            # exact number: the text denotes exactly val; where the library keeps DBL_DIG digits instead (integers
            # of more than DBL_DIG digits) the digits must be the correct rounding of val at the text's own scale
            q = fv.denominator.bit_length() - 1          # val = n / 2^q exactly: q decimal places are needed
            if rc == CIF_ARGUMENT_ERROR and q > 321:
                ctx.violation('num:autoinit_numb:rc:6:exact-form-needs-scale-over-321', 'cif_value_autoinit_numb(%r, su 0) -> CIF_ARGUMENT_ERROR (the exact decimal form needs %d decimal places)' % (val, q), info)
                return
            if rc != CIF_OK:
                ctx.violation('num:autoinit_numb:rc:%d' % rc, 'cif_value_autoinit_numb(%r, su 0) -> %d' % (val, rc), info)
                return
            got = L.read_value(nd.v)
            if got[0] != 'numb' or got[2] or not grammar_ok(got[1]):
                ctx.violation('num:autoinit_numb:not-a-number', 'autoinit_numb produced %r' % (got,), info)
                return
            text = info['text'] = got[1]
            sign, digits, tscale, tsu = decompose(text)
            if tsu is not None:
                ctx.violation('num:autoinit_numb:su-present', 'autoinit_numb(%r, su=0) -> %r carries an uncertainty' % (val, text), info)
                return
            if exact(digits, tscale) * sign != fv:
                if digits != round_half_even(abs(fv) * Fraction(10) ** tscale) or (sign < 0) != (val < 0):
                    ctx.violation('num:autoinit_numb:exact-value:misrounded', 'autoinit_numb(%r, su=0) -> %r is not val correctly rounded at scale %d' % (val, text, tscale), info)
                    return
                if len(str(digits)) < 15:
                    ctx.violation('num:autoinit_numb:exact-value:too-few-digits', 'autoinit_numb(%r, su=0) -> %r keeps %d digits' % (val, text, len(str(digits))), info)
                    return
                ctx.count('exact_requests_rounded_to_15_digits')
            ctx.count('formats_correct')
            check_notation(ctx, fn, text, val, tscale, 5, info)
            if nd.parse(text) != CIF_OK:
                ctx.violation('num:autoinit_numb:reparse', 'text %r is refused by parse_numb' % text, info)
                return
            ctx.count('round_trips')
            return
        # largest scale at which the rounded su does not exceed the rule
        sc = 345
        while sc > -400 and round_half_even(fs * Fraction(10) ** sc) > auto_rule:
            sc -= 1
        scale = sc
    if rc != CIF_OK:
        ctx.violation('num:%s:rc:%d' % (fn, rc), 'cif_value_%s(%r, %r, scale=%r, mlz=%r, rule=%r) -> %d' % (fn, val, su, scale, mlz, auto_rule, rc), info)
        return
    got = L.read_value(nd.v)
    if got[0] != 'numb' or got[2] or not grammar_ok(got[1]):
        ctx.violation('num:%s:not-a-number' % fn, '%s produced %r' % (fn, got), info)
        return
    text = got[1]
    info['text'] = text
    sign, digits, tscale, tsu = decompose(text)
    want_digits = round_half_even(abs(fv) * Fraction(10) ** scale)
    want_su = round_half_even(fs * Fraction(10) ** scale) if su > 0 else None
    if want_su == 0:
        want_su = None          # an su that rounds to zero at the scale makes the number exact
    # compare as quantities: digits at the text's scale
    if tscale != scale:
        # the same quantity may legitimately be written with another exponent split only if digits agree after rescaling
        ctx.violation('num:%s:scale' % fn, '%s(%r, %r, scale %r): text %r has scale %d' % (fn, val, su, scale, text, tscale), info)
        return
    if digits != want_digits:
        ctx.violation('num:%s:digits:%s' % (fn, 'off-by-one' if abs(digits - want_digits) == 1 else 'wrong'),
                      '%s(%r, scale %d) -> %r: digits %d, correctly rounded %d' % (fn, val, scale, text, digits, want_digits), info)
        return
    if (tsu or None) != want_su and not (tsu == 0 and want_su is None):
        ctx.violation('num:%s:su-digits' % fn, '%s(%r, su %r, scale %d) -> %r: su digits %r, correctly rounded %r' % (fn, val, su, scale, text, tsu, want_su), info)
        return
    if tsu == 0:
        # init_numb's text says such a number is exact, autoinit_numb's that "(0)" may be written: both accepted
        ctx.count('su_rounded_to_zero_written_as_0')
    if want_digits != 0 and (sign < 0) != (val < 0):
        ctx.violation('num:%s:sign' % fn, '%s(%r) -> %r' % (fn, val, text), info)
        return
    ctx.count('formats_correct')
    check_notation(ctx, fn, text, val, scale, mlz if auto_rule is None else 5, info)
    # the text parses back to the same digits, scale and uncertainty
    if nd.parse(text) != CIF_OK:
        ctx.violation('num:%s:reparse' % fn, 'text %r produced by %s is refused by parse_numb' % (text, fn), info)
        return
    # ... observed through the doubles it yields
    w = to_float(exact(want_digits, scale)) * (-1 if val < 0 else 1)
    rc, d = L.value_number(nd.v)
    rc2, s_ = L.value_su(nd.v)
    ws = to_float(exact(want_su, scale)) if want_su else 0.0
    if rc != CIF_OK or rc2 != CIF_OK or (judged_range(w) and d != w) or (judged_range(ws) and s_ != ws):
        ctx.violation('num:%s:parse-back' % fn, 'text %r parses back to value %r su %r (rc %d, %d); the digits written denote %r and %r' % (text, d, s_, rc, rc2, w, ws), info)
        return
    ctx.count('round_trips')


SCI_RE = re.compile(r'\A-?[0-9](?:\.[0-9]+)?e[+-][0-9]{2,}(?:\([0-9]+\))?\Z')
DEC_RE = re.compile(r'\A-?[0-9]+(?:\.[0-9]+)?(?:\([0-9]+\))?\Z')


def check_notation(ctx, fn, text, val, scale, mlz, info):
    sci = bool(SCI_RE.match(text))
    dec = bool(DEC_RE.match(text))
    if not sci and not dec:
        ctx.violation('num:%s:notation-shape' % fn, 'text %r is neither plain decimal nor d.ddde+dd notation' % text, info)
        return
    if val == 0:
        must_sci = scale < 0
    else:
        # exact position of the most significant digit of val
        av = Fraction(abs(val))
        k = math.floor(math.log10(abs(val)))
        while Fraction(10) ** k > av:
            k -= 1
        while Fraction(10) ** (k + 1) <= av:
            k += 1
        m = av / Fraction(10) ** k          # in [1, 10)
        sign, digits, tscale, tsu = decompose(text)
        # candidates for "the" leading digit position: val's own, its neighbour when val is within rounding error
        # of a power of ten (the documentation does not say how the count is computed), and the rendered text's
        ks = {k}
        if m < 1 + Fraction(1, 10 ** 13):
            ks.add(k - 1)
        if m > 10 - Fraction(1, 10 ** 12):
            ks.add(k + 1)
        if digits != 0:
            ks.add(len(str(digits)) - 1 - tscale)
        verdicts = set(scale < 0 or -(kk + 1) > mlz for kk in ks)
        if len(verdicts) != 1:
            ctx.count('notation_not_judged')
            return
        leading_zeros = -(k + 1)
        must_sci = verdicts.pop()
    must_dec = not must_sci
    leading_zeros = 0 if val == 0 else leading_zeros
    if must_sci and not sci:
        ctx.violation('num:%s:notation:decimal-where-scientific' % fn, 'text %r (scale %d, %d leading zeroes, limit %d) should be in scientific notation' % (text, scale, leading_zeros, mlz), info)
    elif must_dec and not dec:
        ctx.violation('num:%s:notation:scientific-where-decimal' % fn, 'text %r (scale %d, %d leading zeroes, limit %d) should be in plain decimal notation' % (text, scale, leading_zeros, mlz), info)
    else:
        ctx.count('notation_checked')


# ---- generators ---------------------------------------------------------------------------------------------------

def tie_text(rng):
    """a decimal text lying exactly half-way between two adjacent doubles"""
    import struct
    e = rng.randint(-60, 120)
    m = rng.getrandbits(52) | (1 << 52)
    # doubles m*2^e and (m+1)*2^e ; midpoint (2m+1)*2^(e-1)
    mid = Fraction(2 * m + 1) * Fraction(2) ** (e - 1)
    # exact decimal expansion
    num, den = mid.numerator, mid.denominator
    k = 0
    while den != 1:
        num *= 10
        k += 1
        g = math.gcd(num, den)
        num //= g
        den //= g
        if k > 1100:
            return None
    s = str(num)
    if k:
        s = s.rjust(k + 1, '0')
        s = s[:-k] + '.' + s[-k:]
    if len(s) > 700:
        return None
    return s


def conversion_texts(rng, n):
    out = []
    while len(out) < n:
        r = rng.random()
        if r < 0.25:
            t = tie_text(rng)
            if t is None:
                continue
            if rng.random() < 0.3:
                # nudge the last digit: just above / below the tie
                t = t + rng.choice(['1', '0000000001', '9'])
        elif r < 0.4:
            # neighbourhood of powers of two and of 10^9k bignum boundaries
            p = rng.choice([2 ** rng.randint(1, 200), 10 ** rng.choice([9, 18, 27, 36]), 2 ** 53, 2 ** 63, 2 ** 64])
            t = str(p + rng.randint(-3, 3))
            if rng.random() < 0.5:
                t = t[:rng.randint(1, len(t))] + '.' + t[-3:]
        else:
            nd = rng.choice([1, 2, 5, 9, 10, 15, 16, 17, 18, 19, 20, 27, 28, 40, 100, 600])
            digs = ''.join(rng.choice('0123456789') for _ in range(nd))
            k = rng.randint(0, nd)
            t = rng.choice(['', '', '+', '-']) + rng.choice(['', '0', '000']) + digs[:k] + rng.choice(['.', '.', '']) + digs[k:]
            if not any(c.isdigit() for c in t):
                continue
            if t.endswith('.') and rng.random() < 0.5:
                t = t[:-1]
        if rng.random() < 0.55:
            t += rng.choice('eE') + rng.choice(['', '+', '-']) + str(rng.choice([0, 1, 5, 15, 22, 23, 100, 290, 300, 307, 308, 310, 330, rng.randint(0, 330)]))
        if rng.random() < 0.3:
            t += '(%s)' % ''.join(rng.choice('0123456789') for _ in range(rng.randint(1, 12)))
        if rng.random() < 0.01:
            t = '1e' + rng.choice(['99999999999', '-99999999999', '2147483648', '4294967296', '-2147483649'])
        if grammar_ok(t) and len(t) < 2000:
            out.append(t)
    return out


def format_args(rng):
    r = rng.random()
    if r < 0.3:
        val = rng.choice([0.0, 1.0, -1.0, 0.5, 0.125, 1.5, 2.5, 0.25, 1e-5, 123456.789, -0.001, 1e15, 1 / 3, 2 / 3, 9.995, 0.09996, 99.5, 999.5])
    elif r < 0.6:
        # exact ties at small scales: k + 0.5 * 10^-s for s with exact binary representation
        val = (rng.randint(-2000, 2000) * 2 + 1) / 2 ** rng.randint(1, 6)
    else:
        val = rng.uniform(-1, 1) * 10 ** rng.randint(-12, 15)
    su = rng.choice([0.0, 0.0, 0.5, 0.05, 0.012, 3.0, 19.0, 0.0019, 1e-7, rng.uniform(0, 1) * 10 ** rng.randint(-8, 3)])
    scale = rng.choice([0, 0, 1, 2, 3, 5, 8, 12, 20, -1, -3, -10])
    mlz = rng.choice([0, 1, 3, 5, 8])
    if rng.random() < 0.2:
        # the whole exponent range of double, with a scale that keeps between none and twenty significant digits
        k = rng.randint(-300, 300)
        val = rng.uniform(1, 10) * 10.0 ** k * rng.choice([1, -1])
        if rng.random() < 0.3:
            val = float('%.*e' % (rng.randint(0, 5), val))      # short decimal values: many exact decimal ties
        if rng.random() < 0.1:
            val = math.ldexp(rng.random(), rng.choice([-1022, -1030, -1060, -1070]))       # subnormal and smallest normal values
            k = -308
        scale = max(-300, min(1074, -k + rng.choice([rng.randint(-2, 20), rng.randint(20, 800)])))
        su = rng.choice([0.0, rng.uniform(0, 30) * 10.0 ** -scale if abs(scale) < 300 else 0.0])
        mlz = rng.choice([0, 5, 20, 400])
    return val, su, scale, mlz


def worker(ctx):
    L = ctx.L
    maxlen = ctx.params['acceptance_len']
    # acceptance strings are enumerated in blocks
    per_block = 5000
    total_acc = sum(len(ALPHABET) ** k for k in range(0, maxlen + 1))
    nacc_blocks = (total_acc + per_block - 1) // per_block
    nconv = ctx.params['conversion_cases']
    nfmt = ctx.params['format_cases']
    total = nacc_blocks + nconv + nfmt
    if ctx.params.get('_single') is not None:
        ctx.single = ctx.params['_single']
    nd = NumDriver(ctx)
    scope = LedgerScope(L).__enter__()
    gen = None
    for i in ctx.cases(total):
        ctx.begin(i)
        ctx.count('cases')
        if i < nacc_blocks:
            # strings number [i*per_block, (i+1)*per_block) in length-lexicographic order
            start = i * per_block
            for idx in range(start, min(start + per_block, total_acc)):
                r = idx
                k = 0
                while r >= len(ALPHABET) ** k:
                    r -= len(ALPHABET) ** k
                    k += 1
                s = []
                for _ in range(k):
                    r, d = divmod(r, len(ALPHABET))
                    s.append(ALPHABET[d])
                acceptance_case(ctx, nd, ''.join(reversed(s)))
            if i % 7 == 0:
                rng = ctx.rng('C10-acc', i)
                for _ in range(200):
                    n = rng.randint(6, 14)
                    acceptance_case(ctx, nd, ''.join(rng.choice(ALPHABET + '0123456789') for _ in range(n)))
        elif i < nacc_blocks + nconv:
            rng = ctx.rng('C10-conv', i)
            for t in conversion_texts(rng, ctx.params['per_case']):
                conversion_case(ctx, nd, t)
        else:
            rng = ctx.rng('C10-fmt', i)
            for _ in range(ctx.params['per_case']):
                val, su, scale, mlz = format_args(rng)
                if rng.random() < 0.6:
                    format_case(ctx, nd, val, su, scale, mlz)
                else:
                    rule = rng.choice([2, 9, 19, 27, 28, 29, 99, 199])
                    format_case(ctx, nd, val, su, None, None, auto_rule=rule)
        ctx.drain_events(dict(index=i))
        if i % 97 == 0:
            ctx.sample(dict(index=i, kind='acceptance' if i < nacc_blocks else ('conversion' if i < nacc_blocks + nconv else 'format')), 3)
    nd.close()
    for suffix, detail in scope.finish():
        ctx.violation(suffix, detail, dict(index=-1))


def run(env):
    q = env.quick
    params = dict(acceptance_len=5 if q else 6, conversion_cases=120 if q else 3000, format_cases=120 if q else 3000, per_case=500)
    res = env.run_pool(MODULE, params, nshards=16, case_timeout=300, total_timeout=3000 if q else 30000)
    inconclusive = list(res.inconclusive)
    total_acc = sum(len(ALPHABET) ** k for k in range(0, params['acceptance_len'] + 1))
    if res.count('acceptance_strings') < total_acc and not res.violations:
        inconclusive.append('acceptance sweep incomplete: %d of %d' % (res.count('acceptance_strings'), total_acc))
    return dict(
        level='exploration',
        coverage=dict(
            evaluations=res.count('acceptance_strings') + res.count('conversions') + res.count('formattings'),
            distinct_nontrivial=res.count('accepted') + res.count('values_correctly_rounded') + res.count('formats_correct'),
            rule='evaluations = strings offered to cif_value_parse_numb (all strings up to the tier\'s length over the '
                 '11-letter alphabet, each distinct, plus random longer ones) + text-to-double conversions + double-to-text '
                 'formattings; non-trivial = accepted numbers + conversions equal to the correctly rounded double + '
                 'formattings whose digits, scale and uncertainty equal the exact-rational rendering',
            samples=res.samples, acceptance_exhaustive_to_length=params['acceptance_len'],
            acceptance_strings=res.count('acceptance_strings'), accepted=res.count('accepted'),
            conversions=res.count('conversions'), values_correctly_rounded=res.count('values_correctly_rounded'),
            su_correctly_rounded=res.count('su_correctly_rounded'),
            values_outside_normal_range_not_judged=res.count('values_outside_normal_range'),
            huge_exponent_cases=res.count('huge_exponent_cases'), formattings=res.count('formattings'),
            formats_correct=res.count('formats_correct'), notation_checked=res.count('notation_checked'),
            round_trips=res.count('round_trips'), crashes=res.crashes),
        violations=res.violations, inconclusive=inconclusive,
        assumptions=['Python float(Fraction) and float(str) are correctly rounded (they are checked against each other)',
                     'only the default rounding mode is judged; the sign of a zero result is not',
                     'notation is judged with one leading zero of tolerance around powers of ten'])


def replay(env, rec):
    env.single = (rec.get('case') or {}).get('index')
    return run(env)
