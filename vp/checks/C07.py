"""C07 - values stored in a managed CIF are read back identical.

Each generated value is stored through set_value (new scalar and overwrite of a looped item), add_item, add_packet
and an iterator update - and through the parser, from a document written by the independent CIF writer - and read back
through get_value, packet iteration and the item callback of cif_walk.  Kind, text, quoted flag, the doubles the
library derives from a number (bit patterns of get_number / get_su), list order, table keys in their original spelling
and every member are compared at any depth; then the caller's object is overwritten and freed and the reads are
repeated (the stored copy must be independent)."""
from .. import dump as D
from .. import gen_values as G
from .. import valmodel as VM
from .. import walker
from .. import parsing
from ..lib import *      # noqa: F401,F403
from ..monitors import LedgerScope

MODULE = __name__
PATHS = ['set_value', 'set_value_looped', 'add_item', 'add_packet', 'it_update', 'parse']


class Mismatch(Exception):
    def __init__(self, key, detail):
        Exception.__init__(self, detail)
        self.key = key
        self.detail = detail


def gen_value(rng, i, tier):
    """systematic families first, then random"""
    fam = i % 10
    if fam == 0:
        # serialisation-buffer boundaries: one string inside a list, lengths around 512-byte multiples
        n = rng.choice(list(range(228, 262)) + list(range(356, 392)) + [0, 1, 255, 256, 511, 512, 513, 1023, 1024])
        return ('list', (('char', 'x' * n, True),))
    if fam == 1 and (i // 10) % len(PATHS) == PATHS.index('parse') and (i // 60) % 4 == 1:
        # a value longer than the parser's working buffer (131 200 units), every line within the line limit: the
        # buffer has to be enlarged while the token - which does not start at its beginning - is being scanned
        filler = rng.choice(['abcdefghij', 'caf\u00e9 \u0394x ', 'q\U0001f600r '])
        lines = ['L%05d:%s' % (k, (filler * 160)[:rng.choice([900, 1500, 2000])]) for k in range(rng.choice([80, 110, 160]))]
        return ('char', '\n'.join(lines), True)
    if fam == 1:
        n = rng.choice([0, 1, 2, 255, 256, 257, 511, 512, 513, 4095, 4096, 4097, 70000 if rng.random() < 0.05 else 300])
        ch = rng.choice(['a', 'é', '\U0001f600', '\n', ' ', "'", '"', ';'])
        return ('char', (ch * n)[:n] if len(ch) == 1 else ch * (n // 2), True)
    if fam == 2:
        return ('numb', G.rand_number_text(rng), rng.random() < 0.2)
    if fam == 3:
        depth = rng.choice([1, 2, 4, 8] if tier == 'quick' else [1, 4, 8, 30, 100, 200])
        return G.deep_value(rng, depth)
    if fam == 4:
        w = rng.choice([0, 1, 4, 5, 9, 16, 17, 40] + ([300] if rng.random() < 0.1 else []))
        return ('list', tuple(G.rand_scalar(rng, 6) for _ in range(w)))
    if fam == 5:
        # table keys needing care: empty, blanks, equal only after NFC is avoided (would be one entry), long
        keys = ['', ' ', 'K', 'k', 'é', 'É', 'a b', '\t', 'x' * rng.choice([10, 300]), '\U0001f600', ';', "'", '"',
                # compatibility look-alikes and a composition exclusion next to its truncation: all different keys
                'x\u00b2', 'x2', '\u00b5m', '\u03bcm', '\ufb01x', 'fix', 'k\u0958', 'k\u0915']
        rng.shuffle(keys)
        keys = keys[:rng.randint(0, len(keys))]
        return ('table', tuple((k, G.rand_value(rng, 1, 3, 6)) for k in keys))
    if fam == 6:
        return rng.choice([('unk',), ('na',), ('char', '', True), ('char', '?', True), ('char', '.', True),
                           ('list', ()), ('table', ()), ('list', (('list', ()), ('table', ()))),
                           ('table', (('', ('table', ())),))])
    return G.rand_value(rng, depth=rng.choice([0, 1, 2, 3, 5]), width=rng.choice([2, 3, 6]), maxlen=rng.choice([6, 20, 60]))


def numbers_of(L, v):
    """model value of a value object, augmented with derived doubles"""
    return D.canon(D.with_numbers(L, v, L.read_value(v)))


def model_numbers(L, pv):
    """the same for a model value, via a fresh object built from it (source-side truth of the derived doubles)"""
    v = L.make_value(pv)
    try:
        return numbers_of(L, v)
    finally:
        L.value_free(v)


def observe(L, cif, b, name, want, tag):
    """read the item through the three observers; want = canonical model value with numbers"""
    # 1. get_value (fresh object)
    multi = tag.startswith(('set_value_looped', 'add_item'))     # several packets hold the item
    okrc = CIF_AMBIGUOUS_ITEM if multi else CIF_OK
    rc, v = L.get_value(b, name)
    try:
        if rc != okrc:
            raise Mismatch('model:cif_container_get_value:%d:%d:%s' % (okrc, rc, tag), 'get_value of the stored item -> %d' % rc)
        got = numbers_of(L, v)
    finally:
        if v:
            L.value_free(v)
    if got != want:
        raise Mismatch('readback:get_value:%s:%s' % (tag, want[0]), 'get_value: %s' % D.first_difference(got, want, 'value'))
    # 1b. get_value into an existing object of another kind
    into = L.make_value(('table', (('old', ('char', 'content', True)),)))
    rc, v2 = L.get_value(b, name, into=into)
    try:
        got = numbers_of(L, v2 or into)
    finally:
        L.value_free(v2 or into)
    if rc != okrc or got != want:
        raise Mismatch('readback:get_value-into:%s:%s' % (tag, want[0]), 'get_value into an existing object: rc=%d %s' % (rc, D.first_difference(got, want, 'value')))
    # 2. packet iteration
    rc, lh = L.get_item_loop(b, name)
    if rc != CIF_OK:
        raise Mismatch('model:cif_container_get_item_loop:0:%d:%s' % (rc, tag), 'get_item_loop -> %d' % rc)
    try:
        rc, it = L.loop_get_packets(lh)
        if rc != CIF_OK:
            raise Mismatch('model:cif_loop_get_packets:0:%d:%s' % (rc, tag), 'get_packets -> %d' % rc)
        seen = []
        try:
            while True:
                rc, pk = L.it_next(it, 'new')
                if rc != CIF_OK:
                    break
                rc2, pv = L.packet_get(pk, name)
                if rc2 == CIF_OK:
                    seen.append(numbers_of(L, pv))
                L.packet_free(pk)
        finally:
            L.it_abort(it)
    finally:
        L.loop_free(lh)
    if not seen or any(s != want for s in seen):
        bad = [s for s in seen if s != want]
        raise Mismatch('readback:iterator:%s:%s' % (tag, want[0]), 'packet iteration: %s' % (D.first_difference(bad[0], want, 'value') if bad else 'item not delivered'))
    # 2b. packet iteration into packets the caller made: empty, holding another name only, or holding this item
    # already (with some other value) - in each the delivered item must be retrievable under its name
    for style in ('empty', 'other', 'same'):
        rc, lh = L.get_item_loop(b, name)
        if rc != CIF_OK:
            raise Mismatch('model:cif_container_get_item_loop:0:%d:%s' % (rc, tag), 'get_item_loop -> %d' % rc)
        seen = []
        try:
            rc, it = L.loop_get_packets(lh)
            if rc != CIF_OK:
                raise Mismatch('model:cif_loop_get_packets:0:%d:%s' % (rc, tag), 'get_packets -> %d' % rc)
            rc, mine = L.packet_create(None if style == 'empty' else ['_it.caller'] if style == 'other' else [name.upper()])
            try:
                while True:
                    rc, _ = L.it_next(it, 'reuse', mine)
                    if rc != CIF_OK:
                        break
                    rc2, pv = L.packet_get(mine, name)
                    seen.append(numbers_of(L, pv) if rc2 == CIF_OK else ('missing', rc2))
            finally:
                L.it_abort(it)
                L.packet_free(mine)
        finally:
            L.loop_free(lh)
        if not seen or any(s != want for s in seen):
            bad = [s for s in seen if s != want]
            raise Mismatch('readback:iterator-caller-packet-%s:%s:%s' % (style, tag, want[0]), 'packet iteration into a caller packet (%s): %s'
                           % (style, ('item not retrievable (%r)' % (bad[0],) if bad and bad[0][0] == 'missing' else D.first_difference(bad[0], want, 'value')) if bad else 'item not delivered'))
    # 3. walk
    rc, rec = walker.walk(L, cif)
    if rc != CIF_OK:
        raise Mismatch('model:cif_walk:0:%d:%s' % (rc, tag), 'cif_walk -> %d' % rc)
    for k, d in rec.problems:
        raise Mismatch(k, d)
    nn = name.lower()
    hits = [p[1] for kind, p in rec.events if kind == 'item' and p and p[0] is not None and p[0].lower() == nn]
    # the walk's values are read without derived doubles; compare the plain structure
    plain = strip_numbers(want)
    if not hits or any(D.canon(h) != plain for h in hits):
        bad = [h for h in hits if D.canon(h) != plain]
        raise Mismatch('readback:walk:%s:%s' % (tag, want[0]), 'cif_walk item callback: %s' % (D.first_difference(D.canon(bad[0]), plain, 'value') if bad else 'item not presented'))


def strip_numbers(v):
    if v[0] == 'numb':
        return v[:3]
    if v[0] == 'list':
        return ('list', tuple(strip_numbers(e) for e in v[1]))
    if v[0] == 'table':
        return ('table', tuple((k, strip_numbers(e)) for k, e in v[1]))
    return v


def store(L, rng, cif, b, path, pv, src):
    """store the value object src under a fresh item name through the given path; returns the item name"""
    name = '_it.%s' % path
    if path == 'set_value':
        rc = L.set_value(b, name, src)
        if rc != CIF_OK:
            raise Mismatch('model:cif_container_set_value:0:%d' % rc, 'set_value -> %d' % rc)
    elif path == 'set_value_looped':
        rc, lh = L.create_loop(b, 'lp', [name, '_it.other'])
        for r in range(3):
            rc, pk = L.packet_create([name, '_it.other'])
            L.loop_add_packet(lh, pk)
            L.packet_free(pk)
        L.loop_free(lh)
        rc = L.set_value(b, name, src)     # every packet of the loop gets the value
        if rc != CIF_OK:
            raise Mismatch('model:cif_container_set_value:0:%d:looped' % rc, 'set_value on a looped item -> %d' % rc)
    elif path == 'add_item':
        rc, lh = L.create_loop(b, 'ai', ['_it.first'])
        for r in range(2):
            rc, pk = L.packet_create(['_it.first'])
            L.loop_add_packet(lh, pk)
            L.packet_free(pk)
        rc = L.loop_add_item(lh, name, src)
        L.loop_free(lh)
        if rc != CIF_OK:
            raise Mismatch('model:cif_loop_add_item:0:%d' % rc, 'add_item -> %d' % rc)
    elif path == 'add_packet':
        rc, lh = L.create_loop(b, 'ap', [name, '_it.side'])
        rc, pk = L.packet_create([name])
        rc = L.packet_set(pk, name, src)
        if rc != CIF_OK:
            raise Mismatch('model:cif_packet_set_item:0:%d' % rc, 'packet_set_item -> %d' % rc)
        rc = L.loop_add_packet(lh, pk)
        L.packet_free(pk)
        L.loop_free(lh)
        if rc != CIF_OK:
            raise Mismatch('model:cif_loop_add_packet:0:%d' % rc, 'add_packet -> %d' % rc)
    elif path == 'it_update':
        rc, lh = L.create_loop(b, 'iu', [name, '_it.keep'])
        rc, pk = L.packet_create([name, '_it.keep'])
        L.loop_add_packet(lh, pk)
        L.packet_free(pk)
        rc, it = L.loop_get_packets(lh)
        rc, _ = L.it_next(it, 'null')
        rc, upk = L.packet_create([name])
        L.packet_set(upk, name, src)
        rc = L.it_update(it, upk)
        L.packet_free(upk)
        rc2 = L.it_close(it)
        L.loop_free(lh)
        if rc != CIF_OK or rc2 != CIF_OK:
            raise Mismatch('model:cif_pktitr_update_packet:0:%d/%d' % (rc, rc2), 'iterator update/close -> %d/%d' % (rc, rc2))
    return name


def run_case(ctx, i):
    L = ctx.L
    rng = ctx.rng('C07', i)
    tier = ctx.tier
    pv = gen_value(rng, i, tier)
    path = PATHS[(i // 10) % len(PATHS)]
    info = dict(index=i, path=path, value=D._short(pv, 200), depth=G.value_depth(pv), size=G.value_size(pv))
    if path == 'parse':
        from .. import gen_cif
        if not gen_cif.expressible(pv):
            path = 'set_value'
            info['path'] = path
    scope = LedgerScope(L).__enter__()
    cif = None
    b = None
    src = None
    try:
        want = model_numbers(L, pv)
        # the object handed to the storing call is itself what the generator asked for (the reference for everything
        # read back below is taken from a library object; two keys folded into one there would go unnoticed)
        if strip_numbers(want) != strip_numbers(D.canon(pv)):
            raise Mismatch('readback:source-object:%s' % pv[0], 'the value object built for the test already differs from the value asked for: %s'
                           % D.first_difference(strip_numbers(want), strip_numbers(D.canon(pv)), 'value'))
        if path == 'parse':
            from .. import gen_cif
            w = gen_cif.Writer(rng, 2)
            text = w.document([{'code': 'v', 'entries': [('item', '_it.parse', pv)]}])
            errs = []
            data = text.encode('utf-8')
            # the two text-field protocols are switched independently: turning one off leaves fields that use only the
            # other one to be decoded as before (CIF 2.0: both are on by default)
            folded = any('+fold' in k for k in w.presentations)
            prefixed = any('+prefix' in k for k in w.presentations)
            popts = None
            r = (i // 60) % 4
            if r == 1 and not folded:
                popts = parsing.make_opts(fold=-1)
            elif r == 2 and not prefixed:
                popts = parsing.make_opts(prefix=-1)
            elif r == 3:
                popts = parsing.make_opts(fold=1, prefix=1)
            if popts is not None:
                ctx.count('parses_with_one_text_protocol_switched')
            if i % 2:
                # the same document with CR LF terminators, moved by a comment so that one of its terminators - inside
                # the value if it has any - lies across the first 4096-byte read boundary
                data = straddle(rng, text)
                ctx.count('parsed_documents_with_a_terminator_across_a_read_boundary')
            rc, cif = L.parse_bytes(data, popts, 'new')
            if rc != CIF_OK:
                raise Mismatch('model:cif_parse:0:%d:c07' % rc, 'parsing the document written for the value -> %d\n%s' % (rc, text[:400]))
            rc, b = L.get_block(cif, 'v')
            name = '_it.parse'
            # numbers come back from the parser as unquoted strings with the same text (documented tolerance)
            want = D.canon(parse_view(want))
        else:
            rc, cif = L.create()
            rc, b = L.create_block(cif, 'v')
            src = L.make_value(pv)
            name = store(L, rng, cif, b, path, pv, src)
        observe(L, cif, b, name, want, path)
        ctx.count('values_read_back')
        if src is not None:
            # the stored copy is independent of the caller's object: overwrite, then free it, and read again
            L.call('cif_value_copy_char', src, U('overwritten by the caller'))
            observe(L, cif, b, name, want, path + '+mutated-source')
            L.value_free(src)
            src = None
            observe(L, cif, b, name, want, path + '+freed-source')
            ctx.count('independence_checks')
        ctx.add('shapes', '%s:%s' % (path, G.shape_signature(pv)[:40]))
        ctx.maxi('max_depth', G.value_depth(pv))
        ctx.maxi('max_size', G.value_size(pv))
        ctx.count('completed')
    except Mismatch as m:
        ctx.violation(m.key, m.detail, info)
    finally:
        if src:
            L.value_free(src)
        if b:
            L.container_free(b)
        if cif:
            L.destroy(cif)
    for suffix, detail in scope.finish():
        ctx.violation(suffix, detail, info)
    ctx.drain_events(info)
    ctx.sample(info, 4)


def straddle(rng, text):
    first, rest = text.split('\n', 1)
    head = (first + '\n').replace('\n', '\r\n').encode('utf-8')
    body = rest.replace('\n', '\r\n').encode('utf-8')
    at = [k for k in range(len(body) - 1) if body[k:k + 2] == b'\r\n']
    inside = [k for k in at if k > body.find(b'_it.parse')]
    k = rng.choice(inside or at or [0])
    need = (4095 - len(head) - k) % 4096
    while need < 3:
        need += 4096
    pad = b''
    while need > 0:
        c = min(need, 1400)
        if 0 < need - c < 3:
            c -= 3
        pad += b'#' + b'p' * (c - 3) + b'\r\n'
        need -= c
    return head + pad + body


def parse_view(v):
    """how a value presented in a document is documented to read: numbers are unquoted strings until coerced"""
    if v[0] == 'numb':
        return ('char', v[1], v[2]) if not v[2] else ('char', v[1], True)
    if v[0] == 'list':
        return ('list', tuple(parse_view(e) for e in v[1]))
    if v[0] == 'table':
        return ('table', tuple((k, parse_view(e)) for k, e in v[1]))
    return v


def worker(ctx):
    total = ctx.params['values']
    if ctx.params.get('_single') is not None:
        ctx.single = ctx.params['_single']
    for i in ctx.cases(total):
        ctx.begin(i)
        ctx.count('values')
        run_case(ctx, i)


def run(env):
    n = 4000 if env.quick else 100000
    res = env.run_pool(MODULE, dict(values=n), nshards=16, case_timeout=40)
    inconclusive = list(res.inconclusive)
    if res.count('values') < n and not res.violations:
        inconclusive.append('only %d of %d values ran' % (res.count('values'), n))
    return dict(
        level='exploration',
        coverage=dict(
            evaluations=res.count('values'), distinct_nontrivial=len(res.sets.get('shapes', ())),
            rule='one evaluation = one generated value stored through one of the six paths and read back through '
                 'get_value (fresh and into an existing object), packet iteration and the cif_walk item callback, '
                 'before and after the caller\'s object is overwritten and freed; distinct = distinct (path, kind '
                 'skeleton) pairs',
            samples=res.samples, values_read_back=res.count('values_read_back'),
            independence_checks=res.count('independence_checks'), completed=res.count('completed'),
            max_nesting_depth=res.count('max_depth'), max_value_size=res.count('max_size'), crashes=res.crashes),
        violations=res.violations, inconclusive=inconclusive,
        assumptions=['the derived doubles of the stored value are compared with those of the source value (bit '
                     'patterns); their correctness is C10\'s subject',
                     'values read from a document carry numbers as unquoted strings of the same text'])


def replay(env, rec):
    env.single = (rec.get('case') or {}).get('index')
    return run(env)
