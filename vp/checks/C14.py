"""C14 - cif_walk visits every element once and obeys navigation directives.

For fixture CIFs (parsed from generated documents: nested save frames, several loops, the scalar loop, multi-packet
loops) the all-continue walk must be a depth-first enumeration of the independently obtained dump (vp/dump.py never
uses cif_walk).  Then handler *programs* - an answer attached to chosen callbacks - are run: exhaustively every
single non-continue answer (SKIP_CURRENT, SKIP_SIBLINGS, END, CIF_CLIENT_ERROR, 77) at every callback, pairs in the
thorough tier, and random dense programs.  The expected callback sequence is produced by an abstract interpreter of
the documented semantics, with must / may / must-not classes (DESIGN.md section 5, item 1)."""
import ctypes as C

from .. import dump as D
from .. import gen_cif as GC
from .. import parsing
from .. import walker
from ..lib import *      # noqa: F401,F403
from ..monitors import LedgerScope

MODULE = __name__
# positive codes include ones the library itself uses internally (CIF_FINISHED = 1, CIF_EMPTY_LOOP = 36)
ANSWERS = [TRAVERSE_SKIP_CURRENT, TRAVERSE_SKIP_SIBLINGS, TRAVERSE_END, CIF_CLIENT_ERROR, 77, CIF_FINISHED, CIF_EMPTY_LOOP]


class Mismatch(Exception):
    def __init__(self, key, detail):
        Exception.__init__(self, detail)
        self.key = key
        self.detail = detail


class Node:
    __slots__ = ('kind', 'payload', 'end_payload', 'groups', 'sid', 'eid')

    def __init__(self, kind, payload):
        self.kind = kind
        self.payload = payload
        self.end_payload = None
        self.groups = []      # list of lists of children (containers: [frames], [loops]; others: one group)
        self.sid = None       # index of the start (or item) event in the all-continue walk
        self.eid = None


START = {'cif_start': 'cif', 'block_start': 'block', 'frame_start': 'frame', 'loop_start': 'loop', 'packet_start': 'packet'}
END = {'cif_end': 'cif', 'block_end': 'block', 'frame_end': 'frame', 'loop_end': 'loop', 'packet_end': 'packet'}
CHILD_KINDS = {'cif': [['block']], 'block': [['frame'], ['loop']], 'frame': [['frame'], ['loop']], 'loop': [['packet']],
               'packet': [['item']]}


def build_tree(events):
    """recursive descent over the all-continue event list; raises Mismatch if it is not properly nested / ordered"""
    pos = [0]

    def parse(kind):
        i = pos[0]
        if i >= len(events):
            raise Mismatch('events:structure:truncated', 'event list ends inside a %s' % kind)
        k, p = events[i]
        if kind == 'item':
            if k != 'item':
                raise Mismatch('events:structure:expected-item', 'event %d is %s, expected item' % (i, k))
            n = Node('item', p)
            n.sid = i
            pos[0] += 1
            return n
        if START.get(k) != kind:
            raise Mismatch('events:structure:order', 'event %d is %s where a %s start was expected' % (i, k, kind))
        n = Node(kind, p)
        n.sid = i
        pos[0] += 1
        for group_kinds in CHILD_KINDS[kind]:
            grp = []
            while pos[0] < len(events):
                k2 = events[pos[0]][0]
                ck = START.get(k2) or ('item' if k2 == 'item' else None)
                if ck in group_kinds:
                    grp.append(parse(ck))
                else:
                    break
            n.groups.append(grp)
        if pos[0] >= len(events) or END.get(events[pos[0]][0]) != kind:
            got = events[pos[0]][0] if pos[0] < len(events) else 'end of events'
            raise Mismatch('events:structure:end', '%s started at event %d is followed by %s instead of its end (e.g. a frame after a loop)' % (kind, i, got))
        n.eid = pos[0]
        n.end_payload = events[pos[0]][1]
        pos[0] += 1
        return n
    root = parse('cif')
    if pos[0] != len(events):
        raise Mismatch('events:structure:trailing', 'events after cif_end')
    return root


def tree_to_dump(root):
    def cont(n):
        frames = sorted((cont(f) for f in n.groups[0]), key=lambda c: c[0])
        loops = []
        for l in n.groups[1]:
            cat, names = l.payload
            pk = []
            for p in l.groups[0]:
                pk.append(tuple(sorted((it.payload[0], D.canon(it.payload[1])) for it in p.groups[0])))
            pk.sort(key=repr)
            loops.append((cat, tuple(sorted(names)), tuple(pk)))
        loops.sort(key=repr)
        return (n.payload, tuple(frames), tuple(loops))
    return ('cif', tuple(sorted((cont(b) for b in root.groups[0]), key=lambda c: c[0])))


def classify(a):
    if a > 0:
        return ('ERR', a)
    if a == TRAVERSE_END:
        return ('END', None)
    if a == TRAVERSE_SKIP_SIBLINGS:
        return ('SIB', None)
    return ('CONT', None)


def simulate(root, program=None, rng=None, density=0.0):
    """abstract interpreter of the documented walk semantics.
    Returns (spec, expected rc, program) where spec = [(event index in E0, flag)] with flag 'must' | 'may'."""
    spec = []
    prog = dict(program or {})

    def answer(eid, flag):
        if flag == 'must' and rng is not None and eid not in prog and rng.random() < density:
            prog[eid] = rng.choice(ANSWERS)
        return prog.get(eid, 0) if flag == 'must' else 0

    def sim(n):
        if n.kind == 'item':
            spec.append((n.sid, 'must'))
            return classify(answer(n.sid, 'must'))
        spec.append((n.sid, 'must'))
        a = answer(n.sid, 'must')
        c = classify(a)
        if c[0] in ('ERR', 'END'):
            return c
        if a in (TRAVERSE_SKIP_CURRENT, TRAVERSE_SKIP_SIBLINGS):
            spec.append((n.eid, 'may'))
            return ('SIB', None) if a == TRAVERSE_SKIP_SIBLINGS else ('CONT', None)
        end_flag = 'must'
        for grp in n.groups:
            for ch in grp:
                s = sim(ch)
                if s[0] in ('ERR', 'END'):
                    return s
                if s[0] == 'SIB':
                    end_flag = 'may'
                    break
        spec.append((n.eid, end_flag))
        return classify(answer(n.eid, end_flag))

    s = sim(root)
    rc = s[1] if s[0] == 'ERR' else CIF_OK
    return spec, rc, prog


def programs_conflict(root, program):
    """a program is usable only if every programmed callback is a 'must' under the program itself"""
    spec, rc, prog = simulate(root, program)
    flags = dict(spec)
    return any(flags.get(e) != 'must' for e in program)


def run_program(L, cif, events0, root, program, label, ctx, info, omit=()):
    if omit:
        # a handler member left NULL: nothing is observed for that kind of callback, and traversal continues there
        program = dict((e, a) for e, a in program.items() if events0[e][0] not in omit)
    spec, want_rc, prog = simulate(root, program)
    if omit:
        spec = [(eid, flag) for eid, flag in spec if events0[eid][0] not in omit]
    state = {'pos': 0, 'problems': []}

    def answer_fn(i, kind, payload):
        # match this delivered callback against the specification sequence
        p = state['pos']
        while p < len(spec):
            eid, flag = spec[p]
            k0, p0 = events0[eid]
            if k0 == kind and payloads_match(kind, p0, payload):
                state['pos'] = p + 1
                return prog.get(eid, 0) if flag == 'must' else 0
            if flag == 'must':
                state['problems'].append(('events:%s:must-missing:%s' % (k0, label), 'callback %s %r was not delivered (next delivered: %s %r)' % (k0, short(p0), kind, short(payload))))
                state['pos'] = len(spec) + 1
                return TRAVERSE_END
            p += 1
        if state['pos'] <= len(spec):
            state['problems'].append(('events:%s:mustnot-present:%s' % (kind, label), 'callback %s %r was delivered although the directives bypass it' % (kind, short(payload))))
            state['pos'] = len(spec) + 1
        return TRAVERSE_END

    rc, rec = walker.walk(L, cif, answer_fn=answer_fn, omit=omit)
    for k, d in rec.problems:
        raise Mismatch(k, d)
    if state['problems']:
        k, d = state['problems'][0]
        raise Mismatch(k, d + ' [program %r]' % describe(program, events0))
    # every remaining 'must' callback had to come
    for eid, flag in spec[state['pos']:]:
        if flag == 'must':
            k0, p0 = events0[eid]
            raise Mismatch('events:%s:must-missing:%s' % (k0, label), 'callback %s %r was never delivered [program %r]' % (k0, short(p0), describe(program, events0)))
    if rc != want_rc:
        raise Mismatch('events:rc:%s:want%d:got%d' % (label, want_rc, rc), 'cif_walk returned %d, expected %d [program %r]' % (rc, want_rc, describe(program, events0)))
    if L.in_transaction(cif) != 0:
        raise Mismatch('autocommit:cif_walk:%s' % label, 'a transaction is left open after the walk [program %r]' % describe(program, events0))
    ctx.count('callbacks_delivered', len(rec.events))


def payloads_match(kind, a, b):
    if kind == 'item':
        return a is not None and b is not None and a[0] == b[0] and D.canon(a[1]) == D.canon(b[1])
    return a == b


def short(p):
    r = repr(p)
    return r if len(r) < 80 else r[:77] + '...'


def describe(program, events0):
    return [(i, events0[i][0], a) for i, a in sorted(program.items())][:6]


def make_fixture(ctx, L, n):
    rng = ctx.rng('C14-fixture', n)
    from .. import names as N
    # a document with nested frames and several loops per container
    used = {'codes': set()}
    doc = []
    for b in range(rng.choice([1, 2, 3])):
        blk = GC.rand_container(rng, 2, {'codes': used['codes'], 'frames': set()}, allow_frames=True, size=rng.choice([3, 5, 7]))
        # add a nested frame inside the first frame, if any
        for e in blk['entries']:
            if e[0] == 'frame' and rng.random() < 0.7:
                inner = GC.rand_container(rng, 2, {'codes': set(), 'frames': set()}, allow_frames=False, size=2)
                e[1]['entries'].append(('frame', inner))
                break
        doc.append(blk)
    text, w = GC.write(rng, doc, 2)
    res = parsing.parse(L, text.encode('utf-8'), parsing.make_opts(depth=-1), 'new', 'accept')
    if res.rc != CIF_OK or res.errors:
        if res.cif:
            L.destroy(res.cif)
        raise Mismatch('fixture:parse:%d' % res.rc, 'fixture document does not parse cleanly: %r' % (res.errors[:3],))
    return res.cif, doc


def all_programs(root, events0, tier, rng, nrandom):
    """yield (label, program)"""
    n = len(events0)
    for i in range(n):
        for a in ANSWERS:
            yield ('single:%s:%s' % (events0[i][0], answer_name(a)), {i: a})
    if tier != 'quick':
        for i in range(n):
            for j in range(i + 1, n):
                for a in (TRAVERSE_SKIP_CURRENT, TRAVERSE_SKIP_SIBLINGS):
                    for b in ANSWERS:
                        p = {i: a, j: b}
                        if not programs_conflict(root, p):
                            yield ('pair:%s+%s' % (answer_name(a), answer_name(b)), p)
    for k in range(nrandom):
        spec, rc, prog = simulate(root, None, rng, rng.choice([0.02, 0.05, 0.15, 0.4]))
        yield ('random', prog)


def answer_name(a):
    return {TRAVERSE_SKIP_CURRENT: 'skip_current', TRAVERSE_SKIP_SIBLINGS: 'skip_siblings', TRAVERSE_END: 'end'}.get(a, 'code%d' % a)


def run_fixture(ctx, L, n):
    info = dict(index=n)
    scope = LedgerScope(L).__enter__()
    cif = None
    try:
        cif, doc = make_fixture(ctx, L, n)
        rc, rec = walker.walk(L, cif)
        for k, d in rec.problems:
            raise Mismatch(k, d)
        if rc != CIF_OK:
            raise Mismatch('events:rc:all-continue:want0:got%d' % rc, 'all-continue walk returned %d' % rc)
        events0 = rec.events
        root = build_tree(events0)
        got = tree_to_dump(root)
        want = D.dump(L, cif)
        if got != want:
            raise Mismatch('events:all-continue:content', 'the all-continue walk does not enumerate the CIF: %s' % D.first_difference(got, want))
        # start payload == end payload for containers and loops
        ctx.count('all_continue_walks')
        ctx.count('fixture_callbacks', len(events0))
        ctx.maxi('max_callbacks', len(events0))
        rng = ctx.rng('C14-programs', n)
        nrandom = ctx.params['random_programs']
        nprog = 0
        for label, program in all_programs(root, events0, ctx.tier, rng, nrandom):
            ctx.count('programs')
            nprog += 1
            try:
                run_program(L, cif, events0, root, program, label.split(':')[0] + ':' + (label.split(':')[2] if label.count(':') >= 2 else ''), ctx, info)
                ctx.count('programs_agreeing')
                ctx.add('program_kinds', label)
            except Mismatch as m:
                info2 = dict(info, program=describe(program, events0), label=label)
                ctx.violation(m.key, m.detail, info2)
        # the same with some handler members left NULL (a NULL member means "continue" and is simply not called):
        # each kind alone, and random subsets; quick: the all-continue walk, every answer at the last callbacks and
        # at a stride of the others, and random programs
        omits = [(k,) for k in walker.KINDS] + [tuple(sorted(rng.sample(walker.KINDS, rng.randint(2, 6)))) for _ in range(3)]
        nev = len(events0)
        for omit in omits:
            progs = [('all-continue', {})]
            for i in range(nev):
                if i >= nev - 6 or (i + len(omit) + n) % (7 if ctx.tier == 'quick' else 3) == 0:
                    for a in ANSWERS:
                        progs.append(('single:%s:%s' % (events0[i][0], answer_name(a)), {i: a}))
            for k in range(2):
                spec, rc, prog = simulate(root, None, rng, rng.choice([0.05, 0.15]))
                progs.append(('random', prog))
            for label, program in progs:
                ctx.count('programs')
                ctx.count('programs_with_null_handler_members')
                nprog += 1
                try:
                    lab = 'null-member:' + label.split(':')[0] + ':' + (label.split(':')[2] if label.count(':') >= 2 else '')
                    run_program(L, cif, events0, root, program, lab, ctx, info, omit=omit)
                    ctx.count('programs_agreeing')
                except Mismatch as m:
                    info2 = dict(info, program=describe(program, events0), label=label, null_members=list(omit))
                    ctx.violation(m.key, m.detail, info2)
        ctx.sample(dict(fixture=n, callbacks=len(events0), programs=nprog, first_events=[(k, short(p)) for k, p in events0[:8]]), 3)
    except Mismatch as m:
        ctx.violation(m.key, m.detail, info)
    finally:
        if cif:
            L.destroy(cif)
    for suffix, detail in scope.finish():
        ctx.violation(suffix, detail, info)
    ctx.drain_events(info)


def worker(ctx):
    L = ctx.L
    nfix = ctx.params['fixtures']
    if ctx.params.get('_single') is not None:
        ctx.single = ctx.params['_single']
    for i in ctx.cases(nfix):
        ctx.begin(i)
        ctx.count('fixtures')
        run_fixture(ctx, L, i)


def run(env):
    nfix = 16 if env.quick else 64
    nrandom = 300 if env.quick else 3000
    res = env.run_pool(MODULE, dict(fixtures=nfix, random_programs=nrandom), nshards=16, case_timeout=600,
                       total_timeout=3000 if env.quick else 30000)
    inconclusive = list(res.inconclusive)
    if res.count('fixtures') < nfix and not res.violations:
        inconclusive.append('only %d of %d fixtures ran' % (res.count('fixtures'), nfix))
    return dict(
        level='exploration',
        coverage=dict(
            evaluations=res.count('programs') + res.count('all_continue_walks'),
            distinct_nontrivial=res.count('programs_agreeing'),
            rule='one evaluation = one walk of a fixture CIF under one handler program (or the all-continue walk); '
                 'programs are distinct by construction (enumerated positions x answers, seeded random programs); '
                 'non-trivial = delivered callbacks, bypassed callbacks and return value all as the abstract interpreter '
                 'of the documented semantics prescribes',
            samples=res.samples, fixtures=res.count('fixtures'), all_continue_walks=res.count('all_continue_walks'),
            callbacks_in_fixtures=res.count('fixture_callbacks'), largest_fixture_callbacks=res.count('max_callbacks'),
            callbacks_delivered=res.count('callbacks_delivered'), program_kinds=sorted(res.sets.get('program_kinds', ()))[:80],
            exhaustive_single_answer_programs=True,
            programs_run_with_null_handler_members=res.count('programs_with_null_handler_members'), crashes=res.crashes),
        violations=res.violations, inconclusive=inconclusive,
        assumptions=['element order of repeated walks of an unchanged CIF is stable (the reference order is the '
                     'all-continue walk)', 'end callbacks of skipped elements and of parents of a SKIP_SIBLINGS answer '
                     'may or may not be delivered'])


def replay(env, rec):
    env.single = (rec.get('case') or {}).get('index')
    return run(env)
