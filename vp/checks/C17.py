"""C17 - a failed memory allocation yields an error code, not a crash or corruption.

Fault enumeration: for every public API function (one to four argument shapes each) the call is executed on a fresh,
deterministic fixture with the k-th allocation failing, for k = 1 .. N, separately in the two layers the library
allocates from (malloc family of the library and its hash tables, via link-time wrapping; the storage engine, via
SQLITE_CONFIG_MALLOC).  N, the normal result, the normal outputs and the normal final state come from an unfaulted twin
run on an identical fixture; a second twin run with the target call skipped gives the state "as if the call had not been
made".

Each op is a generator: code before the yield prepares arguments (unfaulted), the yielded closure is the one public
call under fault, code after the yield releases outputs / finishes the scenario (unfaulted) and returns the observable
outputs.  Judged per injection: no crash or sanitizer report (pool); result is CIF_MEMORY_ERROR or CIF_ERROR (NULL for
pointer-returning functions) - or the normal result with the normal outputs and state (legitimate fall-backs); after a
failure the state is that of the skipped twin, caller-owned inputs read back unchanged, and the same call repeated
without fault gives the normal result, outputs and final state; teardown leaves the ledger balanced."""
import ctypes as C

from .. import dump as D
from .. import walker
from ..lib import *      # noqa: F401,F403
from ..monitors import LedgerScope

MODULE = __name__
FAILS = (CIF_MEMORY_ERROR, CIF_ERROR)
NULLPTR = 'null-pointer'

LIST_PV = ('list', (('numb', '1', False), ('char', 'a b', True), ('list', (('unk',), ('table', (('k', ('na',)),)))), ))
TABLE_PV = ('table', (('Key', ('char', 'v', False)), ('k2', ('list', (('numb', '2.5(1)', False), ('char', 'x', True)))), ('\u00e9', ('unk',)),
                      ('\u0959k', ('na',)), ('zz\u095b', ('char', 'w', True))))
DOC = ("#\\#CIF_2.0\ndata_p1\n_a 1\n_b 'two'\n_t {'k':[1 2 {'n':?}]}\nloop_\n_x _y\n1 2\n3 4\n;text\nfield\n;\n[a b]\n"
       "save_fr\n_in 1.5(2)\nsave_\ndata_p2\n_c \"\"\"triple\"\"\"\n").encode()


class Fx:
    """deterministic fixture: a CIF plus caller-owned values and packets"""

    def __init__(self, L):
        self.L = L
        self.cif = L.create()[1]
        self.b1 = L.create_block(self.cif, 'b1')[1]
        self.b2 = L.create_block(self.cif, 'b2')[1]
        self.f1 = L.create_frame(self.b1, 'f1')[1]
        for name, pv in (('_s_char', ('char', 'text value', True)), ('_s_numb', ('numb', '1.25(3)', False)), ('_s_list', LIST_PV), ('_s_table', TABLE_PV)):
            v = L.make_value(pv)
            if L.set_value(self.b1, name, v) != CIF_OK:
                raise HarnessError('fixture')
            L.value_free(v)
        v = L.make_value(('numb', '1', False))
        L.set_value(self.f1, '_f', v)
        L.value_free(v)
        self.loop = L.create_loop(self.b1, 'cat', ['_l1', '_l2', '_l3'])[1]
        for r in range(3):
            pk = L.packet_create(['_l1', '_l2', '_l3'])[1]
            for name, pv in (('_l1', ('char', 'row%d' % r, True)), ('_l2', ('numb', '%d.5' % r, False)), ('_l3', LIST_PV if r == 1 else ('unk',))):
                v = L.make_value(pv)
                L.packet_set(pk, name, v)
                L.value_free(v)
            if L.loop_add_packet(self.loop, pk) != CIF_OK:
                raise HarnessError('fixture')
            L.packet_free(pk)
        # a loop of the other block: the one an enclosing iterator walks in the "@in-iterator" operations
        self.loop2 = L.create_loop(self.b2, 'itcat', ['_i1', '_i2'])[1]
        for r in range(3):
            pk = L.packet_create(['_i1', '_i2'])[1]
            for name in ('_i1', '_i2'):
                v = L.make_value(('char', 'it%d%s' % (r, name), True))
                L.packet_set(pk, name, v)
                L.value_free(v)
            if L.loop_add_packet(self.loop2, pk) != CIF_OK:
                raise HarnessError('fixture')
            L.packet_free(pk)
        # caller-owned objects
        self.v_char = L.make_value(('char', 'standalone', True))
        self.v_numb = L.make_value(('numb', '12.50(12)', False))
        self.v_numtext = L.make_value(('char', '3.25(5)', False))
        self.v_list = L.make_value(LIST_PV)
        self.v_table = L.make_value(TABLE_PV)
        self.v_unk = L.make_value(('unk',))
        self.pk = L.packet_create(['_l1', '_l2', '_l3'])[1]
        for name, pv in (('_l1', ('char', 'new', True)), ('_l2', TABLE_PV), ('_l3', ('na',))):
            v = L.make_value(pv)
            L.packet_set(self.pk, name, v)
            L.value_free(v)
        self.extra = []      # (kind, handle) created by ops' preparation, released at teardown

    def snapshot(self, with_cif=True):
        L = self.L
        vals = tuple(L.read_value(v) for v in (self.v_char, self.v_numb, self.v_numtext, self.v_list, self.v_table, self.v_unk))
        rc, names = L.packet_names(self.pk)
        pk = tuple((n, L.read_value(L.packet_get(self.pk, n)[1])) for n in sorted(names)) if rc == CIF_OK else ('packet_names', rc)
        return (D.dump(L, self.cif) if with_cif else None, vals, pk)

    def owned_valid(self, snap):
        """are the caller-owned objects of a snapshot well-formed values (whatever their content)"""
        def ok(pv):
            if pv[0] in ('BADKIND',):
                return False
            if pv[0] == 'list':
                return all(ok(e) for e in pv[1])
            if pv[0] == 'table':
                return all(e[0] != 'MISSING' and ok(e) for _, e in pv[1])
            return True
        return all(ok(v) for v in snap[1]) and isinstance(snap[2], tuple) and all(ok(v) for _, v in snap[2] if isinstance(v, tuple)) and (not snap[2] or snap[2][0] != 'packet_names')

    def close(self):
        L = self.L
        for v in (self.v_char, self.v_numb, self.v_numtext, self.v_list, self.v_table, self.v_unk):
            L.value_free(v)
        L.packet_free(self.pk)
        for kind, h in self.extra:
            {'value': L.value_free, 'packet': L.packet_free, 'container': L.container_free, 'loop': L.loop_free, 'ustr': L.vp_free}[kind](h)
        L.loop_free(self.loop)
        L.loop_free(self.loop2)
        L.container_free(self.f1)
        L.container_free(self.b1)
        L.container_free(self.b2)
        rc = L.destroy(self.cif)
        if rc != CIF_OK:
            raise HarnessError('fixture teardown: cif_destroy -> %d' % rc)


OPS = []


def op(name, retry=True):
    def deco(fn):
        OPS.append((name, fn, retry))
        return fn
    return deco


def P_():
    return C.c_void_p()


def handle_op(name, fname, getargs, free, retry=True, observe=None):
    """ops of the shape  f(args..., &handle)"""
    @op(name, retry)
    def _(L, fx):
        p = P_()
        args = getargs(L, fx)
        rc = yield (lambda: L.call(fname, *(list(args) + [C.byref(p)])))
        out = None
        if p.value:
            if observe:
                out = observe(L, p.value)
            free(L, p.value)
        return (rc == CIF_OK, out)


def code_of(L, h):
    return L.get_code(h)[1]


def loop_sig(L, h):
    return (L.loop_get_category(h)[1], tuple(sorted(L.loop_get_names(h)[1])))


# ---- whole-CIF and container level ------------------------------------------------------------------------------

@op('cif_create')
def _(L, fx):
    p = P_()
    rc = yield (lambda: L.call('cif_create', C.byref(p)))
    if p.value:
        L.destroy(p.value)
    return rc == CIF_OK


@op('cif_destroy', retry=False)
def _(L, fx):
    c2 = L.create()[1]
    b = L.create_block(c2, 'zz')[1]
    v = L.make_value(TABLE_PV)
    L.set_value(b, '_z', v)
    L.value_free(v)
    L.container_free(b)
    rc = yield (lambda: L.call('cif_destroy', c2))
    return None


handle_op('cif_create_block', 'cif_create_block', lambda L, fx: (fx.cif, U('NewBlock')), lambda L, h: L.container_free(h), observe=code_of)
handle_op('cif_get_block', 'cif_get_block', lambda L, fx: (fx.cif, U('B1')), lambda L, h: L.container_free(h), observe=code_of)
handle_op('cif_container_create_frame', 'cif_container_create_frame', lambda L, fx: (fx.b1, U('Frame2')), lambda L, h: L.container_free(h), observe=code_of)
handle_op('cif_container_get_frame', 'cif_container_get_frame', lambda L, fx: (fx.b1, U('F1')), lambda L, h: L.container_free(h), observe=code_of)
handle_op('cif_container_get_category_loop', 'cif_container_get_category_loop', lambda L, fx: (fx.b1, U('cat')), lambda L, h: L.loop_free(h), observe=loop_sig)
handle_op('cif_container_get_item_loop', 'cif_container_get_item_loop', lambda L, fx: (fx.b1, U('_L2')), lambda L, h: L.loop_free(h), observe=loop_sig)
handle_op('cif_container_get_item_loop:scalar', 'cif_container_get_item_loop', lambda L, fx: (fx.b1, U('_s_list')), lambda L, h: L.loop_free(h), observe=loop_sig)
handle_op('cif_container_get_value:char', 'cif_container_get_value', lambda L, fx: (fx.b1, U('_s_char')), lambda L, h: L.value_free(h), observe=lambda L, h: L.read_value(h))
handle_op('cif_container_get_value:numb', 'cif_container_get_value', lambda L, fx: (fx.b1, U('_s_numb')), lambda L, h: L.value_free(h), observe=lambda L, h: L.read_value(h))
handle_op('cif_container_get_value:table', 'cif_container_get_value', lambda L, fx: (fx.b1, U('_S_Table')), lambda L, h: L.value_free(h), observe=lambda L, h: L.read_value(h))
handle_op('cif_container_get_value:list', 'cif_container_get_value', lambda L, fx: (fx.b1, U('_s_list')), lambda L, h: L.value_free(h), observe=lambda L, h: L.read_value(h))
handle_op('cif_loop_get_packets', 'cif_loop_get_packets', lambda L, fx: (fx.loop,), lambda L, h: L.it_abort(h))
handle_op('cif_value_create:list', 'cif_value_create', lambda L, fx: (KIND_LIST,), lambda L, h: L.value_free(h), observe=lambda L, h: L.read_value(h))
handle_op('cif_value_create:table', 'cif_value_create', lambda L, fx: (KIND_TABLE,), lambda L, h: L.value_free(h), observe=lambda L, h: L.read_value(h))
handle_op('cif_value_create:unk', 'cif_value_create', lambda L, fx: (KIND_UNK,), lambda L, h: L.value_free(h), observe=lambda L, h: L.read_value(h))
handle_op('cif_value_clone:table', 'cif_value_clone', lambda L, fx: (fx.v_table,), lambda L, h: L.value_free(h), observe=lambda L, h: L.read_value(h))
handle_op('cif_value_clone:list', 'cif_value_clone', lambda L, fx: (fx.v_list,), lambda L, h: L.value_free(h), observe=lambda L, h: L.read_value(h))
handle_op('cif_value_clone:numb', 'cif_value_clone', lambda L, fx: (fx.v_numb,), lambda L, h: L.value_free(h), observe=lambda L, h: L.read_value(h))
handle_op('cif_value_get_text', 'cif_value_get_text', lambda L, fx: (fx.v_numb,), lambda L, h: L.vp_free(h), observe=lambda L, h: L.ustr(h))
handle_op('cif_container_get_code', 'cif_container_get_code', lambda L, fx: (fx.f1,), lambda L, h: L.vp_free(h), observe=lambda L, h: L.ustr(h))
handle_op('cif_loop_get_category', 'cif_loop_get_category', lambda L, fx: (fx.loop,), lambda L, h: L.vp_free(h), observe=lambda L, h: L.ustr(h))
handle_op('cif_normalize', 'cif_normalize', lambda L, fx: (U('_Nam\u00c9.\u212bx'), -1), lambda L, h: L.vp_free(h), observe=lambda L, h: L.ustr(h))
# names that grow by two or more units under case folding (the folding buffer has to be enlarged)
handle_op('cif_normalize:expanding', 'cif_normalize', lambda L, fx: (U('_Stra\u00dfenma\u00df.\ufb03x'), -1), lambda L, h: L.vp_free(h), observe=lambda L, h: L.ustr(h))
handle_op('cif_create_block:expanding', 'cif_create_block', lambda L, fx: (fx.cif, U('Ma\u00df\ufb03\u00df')), lambda L, h: L.container_free(h), observe=code_of)
handle_op('cif_cstr_to_ustr', 'cif_cstr_to_ustr', lambda L, fx: (b'plain text', -1), lambda L, h: L.vp_free(h), observe=lambda L, h: L.ustr(h))
handle_op('cif_get_api_version', 'cif_get_api_version', lambda L, fx: (), lambda L, h: L.vp_free(h), observe=lambda L, h: C.string_at(h))
handle_op('cif_parse_options_create', 'cif_parse_options_create', lambda L, fx: (), lambda L, h: L.vp_free(h))
handle_op('cif_write_options_create', 'cif_write_options_create', lambda L, fx: (), lambda L, h: L.vp_free(h))
handle_op('cif_packet_create:names', 'cif_packet_create', lambda L, fx: (), lambda L, h: None)   # replaced below


def _array_op(name, fname, getargs, elem_free, observe):
    """ops returning a NULL-terminated array of handles / strings"""
    @op(name)
    def _(L, fx):
        p = C.POINTER(C.c_void_p)()
        args = getargs(L, fx)
        rc = yield (lambda: L.call(fname, *(list(args) + [C.byref(p)])))
        out = None
        if p:
            items = []
            i = 0
            while p[i]:
                items.append(observe(L, p[i]))
                if elem_free:
                    elem_free(L, p[i])
                i += 1
            L.vp_free(C.cast(p, C.c_void_p))
            out = tuple(sorted(items, key=repr))
        return (rc == CIF_OK, out)


_array_op('cif_get_all_blocks', 'cif_get_all_blocks', lambda L, fx: (fx.cif,), lambda L, h: L.container_free(h), code_of)
_array_op('cif_container_get_all_frames', 'cif_container_get_all_frames', lambda L, fx: (fx.b1,), lambda L, h: L.container_free(h), code_of)
_array_op('cif_container_get_all_loops', 'cif_container_get_all_loops', lambda L, fx: (fx.b1,), lambda L, h: L.loop_free(h), loop_sig)
_array_op('cif_loop_get_names', 'cif_loop_get_names', lambda L, fx: (fx.loop,), lambda L, h: L.vp_free(h), lambda L, h: L.ustr(h))
_array_op('cif_packet_get_names', 'cif_packet_get_names', lambda L, fx: (fx.pk,), None, lambda L, h: L.ustr(h))
_array_op('cif_value_get_keys', 'cif_value_get_keys', lambda L, fx: (fx.v_table,), None, lambda L, h: L.ustr(h))

OPS[:] = [o for o in OPS if o[0] != 'cif_packet_create:names']


def rc_op(name, fname, getargs, retry=True):
    """ops of the shape  rc = f(args...)  whose effect shows in the fixture snapshot"""
    @op(name, retry)
    def _(L, fx):
        args = getargs(L, fx)
        rc = yield (lambda: L.call(fname, *args))
        return None


rc_op('cif_create_block:no-handle', 'cif_create_block', lambda L, fx: (fx.cif, U('nb2'), None))
rc_op('cif_container_create_frame:no-handle', 'cif_container_create_frame', lambda L, fx: (fx.b2, U('nf2'), None))
rc_op('cif_container_assert_block', 'cif_container_assert_block', lambda L, fx: (fx.b1,))
rc_op('cif_container_prune', 'cif_container_prune', lambda L, fx: (fx.b1,))
rc_op('cif_container_set_value:new', 'cif_container_set_value', lambda L, fx: (fx.b1, U('_brand_new'), fx.v_table))
rc_op('cif_container_set_value:new-null', 'cif_container_set_value', lambda L, fx: (fx.b2, U('_brand_new'), None))
rc_op('cif_container_set_value:replace', 'cif_container_set_value', lambda L, fx: (fx.b1, U('_S_CHAR'), fx.v_list))
rc_op('cif_container_set_value:in-loop', 'cif_container_set_value', lambda L, fx: (fx.b1, U('_l2'), fx.v_char))
rc_op('cif_container_set_value:new-numb', 'cif_container_set_value', lambda L, fx: (fx.b2, U('_number'), fx.v_numb))
rc_op('cif_container_set_value:replace-with-numb', 'cif_container_set_value', lambda L, fx: (fx.b1, U('_s_list'), fx.v_numb))
rc_op('cif_packet_set_item:replace-with-numb', 'cif_packet_set_item', lambda L, fx: (fx.pk, U('_l1'), fx.v_numb))
rc_op('cif_value_set_element_at:numb', 'cif_value_set_element_at', lambda L, fx: (fx.v_list, 0, fx.v_numb))
rc_op('cif_container_remove_item:scalar', 'cif_container_remove_item', lambda L, fx: (fx.b1, U('_s_numb')))
rc_op('cif_container_remove_item:loop', 'cif_container_remove_item', lambda L, fx: (fx.b1, U('_l3')))
rc_op('cif_container_remove_item:sole-item-of-its-loop', 'cif_container_remove_item', lambda L, fx: (fx.f1, U('_f')))
rc_op('cif_loop_set_category', 'cif_loop_set_category', lambda L, fx: (fx.loop, U('newcat')))
rc_op('cif_loop_add_item', 'cif_loop_add_item', lambda L, fx: (fx.loop, U('_l4'), fx.v_table))
rc_op('cif_loop_add_item:null', 'cif_loop_add_item', lambda L, fx: (fx.loop, U('_l4'), None))
rc_op('cif_loop_add_packet', 'cif_loop_add_packet', lambda L, fx: (fx.loop, fx.pk))
rc_op('cif_packet_set_item:new', 'cif_packet_set_item', lambda L, fx: (fx.pk, U('_added'), fx.v_list))
rc_op('cif_packet_set_item:replace', 'cif_packet_set_item', lambda L, fx: (fx.pk, U('_L2'), fx.v_char))
rc_op('cif_packet_set_item:expanding-name', 'cif_packet_set_item', lambda L, fx: (fx.pk, U('_\ufb03\u00df\u00df'), fx.v_char))
rc_op('cif_container_set_value:expanding-name', 'cif_container_set_value', lambda L, fx: (fx.b2, U('_Gr\u00f6\u00dfe\u00df\ufb04'), fx.v_char))
rc_op('cif_packet_set_item:null', 'cif_packet_set_item', lambda L, fx: (fx.pk, U('_added'), None))
rc_op('cif_value_init:table', 'cif_value_init', lambda L, fx: (fx.v_char, KIND_TABLE))
rc_op('cif_value_init:list', 'cif_value_init', lambda L, fx: (fx.v_table, KIND_LIST))
rc_op('cif_value_copy_char', 'cif_value_copy_char', lambda L, fx: (fx.v_table, U('copied text')))
rc_op('cif_value_init_numb', 'cif_value_init_numb', lambda L, fx: (fx.v_list, 12.345, 0.012, 3, 5))
rc_op('cif_value_init_numb:sci', 'cif_value_init_numb', lambda L, fx: (fx.v_char, 1.2345e-9, 0.0, 12, 2))
rc_op('cif_value_autoinit_numb', 'cif_value_autoinit_numb', lambda L, fx: (fx.v_char, 17.0068, 0.0123, 19))
rc_op('cif_value_autoinit_numb:exact', 'cif_value_autoinit_numb', lambda L, fx: (fx.v_table, 0.375, 0.0, 19))
rc_op('cif_value_set_quoted:unk', 'cif_value_set_quoted', lambda L, fx: (fx.v_unk, 1))
rc_op('cif_value_set_quoted:unquote', 'cif_value_set_quoted', lambda L, fx: (fx.v_char, 0))
rc_op('cif_value_try_quoted', 'cif_value_try_quoted', lambda L, fx: (fx.v_unk, 1))
rc_op('cif_value_set_element_at', 'cif_value_set_element_at', lambda L, fx: (fx.v_list, 1, fx.v_table))
rc_op('cif_value_insert_element_at', 'cif_value_insert_element_at', lambda L, fx: (fx.v_list, 0, fx.v_table))
rc_op('cif_value_insert_element_at:end', 'cif_value_insert_element_at', lambda L, fx: (fx.v_list, 3, fx.v_char))
rc_op('cif_value_remove_element_at:discard', 'cif_value_remove_element_at', lambda L, fx: (fx.v_list, 2, None))
rc_op('cif_value_set_item_by_key:new', 'cif_value_set_item_by_key', lambda L, fx: (fx.v_table, U('fresh'), fx.v_list))
rc_op('cif_value_set_item_by_key:replace', 'cif_value_set_item_by_key', lambda L, fx: (fx.v_table, U('Key'), fx.v_numb))
rc_op('cif_value_set_item_by_key:null', 'cif_value_set_item_by_key', lambda L, fx: (fx.v_table, U('fresh'), None))
# keys through every way the normaliser sizes its output: composition exclusions make the NFC form one unit longer
# than the key as given (only the terminator does not fit), several make it much longer (second pass), a decomposed
# key makes it shorter
rc_op('cif_value_set_item_by_key:key-one-unit-longer-normalised', 'cif_value_set_item_by_key', lambda L, fx: (fx.v_table, U('k\u0958'), fx.v_char))
rc_op('cif_value_set_item_by_key:key-much-longer-normalised', 'cif_value_set_item_by_key', lambda L, fx: (fx.v_table, U('\u0958\u0959\u095a\u095b\u095c\u0f43\ufb1d'), fx.v_char))
rc_op('cif_value_set_item_by_key:key-shorter-normalised', 'cif_value_set_item_by_key', lambda L, fx: (fx.v_table, U('e\u0301a\u0308o\u0302'), fx.v_char))
rc_op('cif_value_get_item_by_key:key-one-unit-longer-normalised', 'cif_value_get_item_by_key', lambda L, fx: (fx.v_table, U('\u0959k'), None))
rc_op('cif_value_remove_item_by_key:key-one-unit-longer-normalised', 'cif_value_remove_item_by_key', lambda L, fx: (fx.v_table, U('zz\u095b'), None))
rc_op('cif_container_set_value:name-with-composition-exclusion', 'cif_container_set_value', lambda L, fx: (fx.b2, U('_n\u0958'), fx.v_char))
rc_op('cif_packet_set_item:name-with-composition-exclusion', 'cif_packet_set_item', lambda L, fx: (fx.pk, U('_\u095e'), fx.v_char))
rc_op('cif_value_remove_item_by_key:discard', 'cif_value_remove_item_by_key', lambda L, fx: (fx.v_table, U('k2'), None))


@op('cif_container_destroy:frame', retry=False)
def _(L, fx):
    h = L.get_frame(fx.b1, 'f1')[1]
    rc = yield (lambda: L.call('cif_container_destroy', h))
    if rc is None or rc != CIF_OK:
        L.container_free(h)
    return None


@op('cif_container_destroy:block', retry=False)
def _(L, fx):
    h = L.get_block(fx.cif, 'b2')[1]
    rc = yield (lambda: L.call('cif_container_destroy', h))
    if rc is None or rc != CIF_OK:
        L.container_free(h)
    return None


@op('cif_loop_destroy', retry=False)
def _(L, fx):
    h = L.get_category_loop(fx.b1, 'cat')[1]
    rc = yield (lambda: L.call('cif_loop_destroy', h))
    if rc is None or rc != CIF_OK:
        L.loop_free(h)
    return None


@op('cif_container_create_loop:3')
def _(L, fx):
    p = P_()
    arr, keep = L.ustr_array(['_n1', '_N2', '_n3'])
    cat = U('fresh')
    rc = yield (lambda: L.call('cif_container_create_loop', fx.b1, cat, arr, C.byref(p)))
    out = None
    if p.value:
        out = loop_sig(L, p.value)
        L.loop_free(p.value)
    return out


@op('cif_container_create_loop:1-no-handle')
def _(L, fx):
    arr, keep = L.ustr_array(['_only'])
    rc = yield (lambda: L.call('cif_container_create_loop', fx.b2, None, arr, None))
    return None


@op('cif_container_get_value:into-existing')
def _(L, fx):
    p = C.c_void_p(fx.v_list)
    name = U('_s_table')
    rc = yield (lambda: L.call('cif_container_get_value', fx.b1, name, C.byref(p)))
    if p.value != fx.v_list:
        raise HarnessError('the value pointer was replaced')
    return None


@op('cif_value_clone:into-existing')
def _(L, fx):
    p = C.c_void_p(fx.v_char)
    rc = yield (lambda: L.call('cif_value_clone', fx.v_table, C.byref(p)))
    return None


@op('cif_value_clone:numb-into-existing')
def _(L, fx):
    p = C.c_void_p(fx.v_table)
    rc = yield (lambda: L.call('cif_value_clone', fx.v_numb, C.byref(p)))
    return None


@op('cif_packet_create:names')
def _(L, fx):
    p = P_()
    arr, keep = L.ustr_array(['_P1', '_p2', '_p3'])
    rc = yield (lambda: L.call('cif_packet_create', C.byref(p), arr))
    out = None
    if p.value:
        out = tuple(sorted(L.packet_names(p.value)[1]))
        L.packet_free(p.value)
    return out


@op('cif_packet_create:many-names')
def _(L, fx):
    # enough names for the packet's hash table to grow while it is being built
    p = P_()
    arr, keep = L.ustr_array(['_M%03d' % j for j in range(260)])
    rc = yield (lambda: L.call('cif_packet_create', C.byref(p), arr))
    out = None
    if p.value:
        out = len(L.packet_names(p.value)[1])
        L.packet_free(p.value)
    return out


@op('cif_packet_create:empty')
def _(L, fx):
    p = P_()
    rc = yield (lambda: L.call('cif_packet_create', C.byref(p), None))
    if p.value:
        L.packet_free(p.value)
    return None


@op('cif_packet_get_item')
def _(L, fx):
    p = P_()
    name = U('_L2')
    rc = yield (lambda: L.call('cif_packet_get_item', fx.pk, name, C.byref(p)))
    return L.read_value(p.value) if p.value else None


@op('cif_packet_remove_item:keep')
def _(L, fx):
    p = P_()
    name = U('_l2')
    rc = yield (lambda: L.call('cif_packet_remove_item', fx.pk, name, C.byref(p)))
    out = None
    if p.value:
        out = L.read_value(p.value)
        L.value_free(p.value)
    return out


@op('cif_packet_remove_item:discard')
def _(L, fx):
    name = U('_l2')
    rc = yield (lambda: L.call('cif_packet_remove_item', fx.pk, name, None))
    return None


@op('cif_value_init_char')
def _(L, fx):
    text = L.malloc_ustr('owned text')
    rc = yield (lambda: L.call('cif_value_init_char', fx.v_list, text))
    if rc is None or rc != CIF_OK:
        L.vp_free(text)
    return None


@op('cif_value_parse_numb')
def _(L, fx):
    text = L.malloc_ustr('-12.5e+3(25)')
    rc = yield (lambda: L.call('cif_value_parse_numb', fx.v_table, text))
    if rc is None or rc != CIF_OK:
        L.vp_free(text)
    return None


@op('cif_value_get_number:coerce')
def _(L, fx):
    d = C.c_double(-1)
    rc = yield (lambda: L.call('cif_value_get_number', fx.v_numtext, C.byref(d)))
    return d.value if rc == CIF_OK else None


@op('cif_value_get_su')
def _(L, fx):
    d = C.c_double(-1)
    rc = yield (lambda: L.call('cif_value_get_su', fx.v_numb, C.byref(d)))
    return d.value if rc == CIF_OK else None


@op('cif_value_get_element_count')
def _(L, fx):
    n = C.c_size_t(99)
    rc = yield (lambda: L.call('cif_value_get_element_count', fx.v_table, C.byref(n)))
    return n.value if rc == CIF_OK else None


@op('cif_value_get_element_at')
def _(L, fx):
    p = P_()
    rc = yield (lambda: L.call('cif_value_get_element_at', fx.v_list, 2, C.byref(p)))
    return L.read_value(p.value) if p.value else None


@op('cif_value_get_item_by_key')
def _(L, fx):
    p = P_()
    key = U('k2')
    rc = yield (lambda: L.call('cif_value_get_item_by_key', fx.v_table, key, C.byref(p)))
    return L.read_value(p.value) if p.value else None


@op('cif_value_remove_element_at:keep')
def _(L, fx):
    p = P_()
    rc = yield (lambda: L.call('cif_value_remove_element_at', fx.v_list, 2, C.byref(p)))
    out = None
    if p.value:
        out = L.read_value(p.value)
        L.value_free(p.value)
    return out


@op('cif_value_remove_item_by_key:keep')
def _(L, fx):
    p = P_()
    key = U('k2')
    rc = yield (lambda: L.call('cif_value_remove_item_by_key', fx.v_table, key, C.byref(p)))
    out = None
    if p.value:
        out = L.read_value(p.value)
        L.value_free(p.value)
    return out


@op('cif_u_strdup')
def _(L, fx):
    s = U('duplicate me \U0001f600')
    box = []

    def go():
        r = L.call('cif_u_strdup', s)
        box.append(r)
        return CIF_OK if r else NULLPTR
    rc = yield go
    out = None
    for r in box:
        if r:
            out = L.ustr(r)
            L.vp_free(r)
    return out


@op('cif_analyze_string')
def _(L, fx):
    a = Analysis()
    s = U("it's a \"string\"\n;with lines")
    rc = yield (lambda: L.call('cif_analyze_string', s, 1, 1, 2048, C.byref(a)))
    return (a.delim_length, a.num_lines) if rc == CIF_OK else None


@op('cif_walk')
def _(L, fx):
    box = []

    def go():
        rec = walker.Recorder(L, None, query=False)
        box.append(rec)
        return L.call('cif_walk', fx.cif, C.byref(rec.handler), None)
    rc = yield go
    return len(box[-1].events) if rc == CIF_OK and box else None


# ---- insertions that find a list's element array full (capacities 4, 8, 12), and a value whose serialised form makes the
# write buffer grow several times

def _full_list_op(n):
    @op('cif_value_insert_element_at:list-of-%d' % n)
    def _(L, fx):
        lst = L.value_create(KIND_LIST)[1]
        for j in range(n):
            if L.call('cif_value_insert_element_at', lst, j, fx.v_char) != CIF_OK:
                raise HarnessError('building the list')
        fx.extra.append(('value', lst))
        rc = yield (lambda: L.call('cif_value_insert_element_at', lst, n, fx.v_numb))
        return (rc == CIF_OK, L.read_value(lst))


for _n in (4, 8, 12):
    _full_list_op(_n)


@op('cif_container_set_value:long-list')
def _(L, fx):
    big = L.make_value(('list', tuple(('char', 'element %d of a list long enough to outgrow the buffer' % j, True) for j in range(120))))
    fx.extra.append(('value', big))
    name = U('_long_list')
    rc = yield (lambda: L.call('cif_container_set_value', fx.b2, name, big))
    return None


# ---- the insertion at which a map's hash table grows ------------------------------------------------------------------
# (the bucket array is reallocated only after a couple of hundred entries; which insertion does it is found by counting
# allocations on a scratch map, then the real map is brought to the state just before it)

def _growth_op(name, make, insert, names_of, free, label):
    @op(name)
    def _(L, fx):
        keys = [label % j for j in range(700)]
        probe = make(L)
        base = jstar = None
        for j, k in enumerate(keys):
            L.vp_lib_fault_arm(0)
            rc = insert(L, probe, k, fx.v_char)
            n = L.vp_lib_fault_count()
            if rc != CIF_OK:
                raise HarnessError('probe insertion -> %d' % rc)
            if j == 1:
                base = n
            elif j > 1 and n > base:
                jstar = j
                break
        free(L, probe)
        if jstar is None:
            raise HarnessError('no insertion with an extra allocation among %d' % len(keys))
        m = make(L)
        for k in keys[:jstar]:
            insert(L, m, k, fx.v_char)
        fx.extra.append(('packet' if name.startswith('cif_packet') else 'value', m))
        rc = yield (lambda: insert(L, m, keys[jstar], fx.v_char))
        return (rc == CIF_OK, jstar, tuple(sorted(names_of(L, m))))


_growth_op('cif_packet_set_item:hash-growth', lambda L: L.packet_create([])[1],
           lambda L, m, k, v: L.call('cif_packet_set_item', m, U(k), v), lambda L, m: L.packet_names(m)[1],
           lambda L, m: L.packet_free(m), '_g%03d')
_growth_op('cif_value_set_item_by_key:hash-growth', lambda L: L.value_create(KIND_TABLE)[1],
           lambda L, m, k, v: L.call('cif_value_set_item_by_key', m, U(k), v), lambda L, m: L.table_keys(m)[1],
           lambda L, m: L.value_free(m), 'g%03d')


# ---- packet iterators: the scenario around the faulted step is completed (or aborted) without faults ---------------

def _open(L, fx, steps=1):
    rc, it = L.loop_get_packets(fx.loop)
    if rc != CIF_OK:
        raise HarnessError('cannot open the iterator: %d' % rc)
    for _ in range(steps):
        rc, pkt = L.it_next(it, 'new')
        if rc != CIF_OK:
            raise HarnessError('next -> %d' % rc)
        L.packet_free(pkt)
    return it


@op('cif_pktitr_next_packet:new')
def _(L, fx):
    it = _open(L, fx, 1)
    p = P_()
    rc = yield (lambda: L.call('cif_pktitr_next_packet', it, C.byref(p)))
    out = None
    if p.value:
        out = tuple(sorted((n, L.read_value(L.packet_get(p.value, n)[1])) for n in L.packet_names(p.value)[1]))
        L.packet_free(p.value)
    L.it_abort(it)
    return out


@op('cif_pktitr_next_packet:reuse')
def _(L, fx):
    it = _open(L, fx, 0)
    p = C.c_void_p(fx.pk)
    rc = yield (lambda: L.call('cif_pktitr_next_packet', it, C.byref(p)))
    L.it_abort(it)
    return None


@op('cif_pktitr_next_packet:skip')
def _(L, fx):
    it = _open(L, fx, 1)
    rc = yield (lambda: L.call('cif_pktitr_next_packet', it, None))
    L.it_abort(it)
    return None


@op('cif_pktitr_update_packet')
def _(L, fx):
    it = _open(L, fx, 2)
    rc = yield (lambda: L.call('cif_pktitr_update_packet', it, fx.pk))
    if rc == CIF_OK:
        rc2 = L.it_close(it)
        if rc2 != CIF_OK:
            raise HarnessError('close -> %d' % rc2)
    else:
        L.it_abort(it)
    return None


@op('cif_pktitr_remove_packet')
def _(L, fx):
    it = _open(L, fx, 2)
    rc = yield (lambda: L.call('cif_pktitr_remove_packet', it))
    if rc == CIF_OK:
        rc2 = L.it_close(it)
        if rc2 != CIF_OK:
            raise HarnessError('close -> %d' % rc2)
    else:
        L.it_abort(it)
    return None


def _then_close(name, which, steps, call):
    """an iterator step that failed is not repeated here: the caller goes on and *closes* the iterator - what the
    failed step may have half done must not be committed with it (after a repetition the step heals itself, after an
    abort everything is undone anyway: neither shows a change that escaped the step's own undoing)"""
    @op(name, retry=False)
    def _(L, fx):
        if which == 'scalars':
            rc, lp = L.get_category_loop(fx.b1, '')
        else:
            rc, lp = CIF_OK, None
        if rc != CIF_OK:
            raise HarnessError('no scalar loop: %d' % rc)
        try:
            rc, it = L.loop_get_packets(lp or fx.loop)
            if rc != CIF_OK:
                raise HarnessError('cannot open the iterator: %d' % rc)
            for _ in range(steps):
                rc, pkt = L.it_next(it, 'new')
                if rc != CIF_OK:
                    raise HarnessError('next -> %d' % rc)
                L.packet_free(pkt)
            rc = yield (lambda: call(L, fx, it))
            # (where the storage engine has already ended the transaction - the recorded finding - close says so)
            if L.it_close(it) != CIF_OK and L.in_transaction(fx.cif):
                raise HarnessError('close failed and left the transaction open')
        finally:
            if lp:
                L.loop_free(lp)
        return None


_then_close('cif_pktitr_remove_packet:then-close', 'loop', 2, lambda L, fx, it: L.call('cif_pktitr_remove_packet', it))
_then_close('cif_pktitr_remove_packet:scalars:then-close', 'scalars', 1, lambda L, fx, it: L.call('cif_pktitr_remove_packet', it))
_then_close('cif_pktitr_update_packet:then-close', 'loop', 2, lambda L, fx, it: L.call('cif_pktitr_update_packet', it, fx.pk))
_then_close('cif_pktitr_next_packet:then-close', 'loop', 1, lambda L, fx, it: L.call('cif_pktitr_next_packet', it, None))


@op('cif_pktitr_close', retry=False)
def _(L, fx):
    it = _open(L, fx, 1)
    if L.it_update(it, fx.pk) != CIF_OK:
        raise HarnessError('update')
    rc = yield (lambda: L.call('cif_pktitr_close', it))
    if rc is None:
        L.it_abort(it)
    return None


@op('cif_pktitr_abort', retry=False)
def _(L, fx):
    it = _open(L, fx, 1)
    if L.it_update(it, fx.pk) != CIF_OK:
        raise HarnessError('update')
    rc = yield (lambda: L.call('cif_pktitr_abort', it))
    if rc is None:
        L.it_abort(it)
    return None


# ---- parse and write --------------------------------------------------------------------------------------------

def _parse_op(name, target_kind):
    @op(name, retry=(target_kind != 'existing'))
    def _(L, fx):
        from .. import parsing
        box = []

        def go():
            f = L.vp_open_reader(DOC, len(DOC), 0, 0)
            opts = parsing.make_opts()
            try:
                if target_kind == 'none':
                    return L.call('cif_parse', f, C.byref(opts), None)
                p = C.c_void_p(fx.cif if target_kind == 'existing' else None)
                rc = L.call('cif_parse', f, C.byref(opts), C.byref(p))
                if target_kind == 'new':
                    box.append(p.value)
                return rc
            finally:
                L.vp_fclose(f)
        rc = yield go
        out = None
        for c in box:
            if c:
                out = D.dump(L, c)        # must be consistent; only the last (successful) one is the output
                if L.destroy(c) != CIF_OK:
                    raise HarnessError('destroy of the parsed CIF')
        return out if rc == CIF_OK else None


_parse_op('cif_parse:new', 'new')
_parse_op('cif_parse:syntax-only', 'none')
_parse_op('cif_parse:existing', 'existing')


def _write_op(name, version):
    @op(name)
    def _(L, fx):
        box = []

        def go():
            w = L.vp_open_writer()
            try:
                o = WriteOpts()
                o.cif_version = version
                rc = L.call('cif_write', L.vp_writer_file(w), C.byref(o), fx.cif)
                n = C.c_size_t()
                pdata = L.vp_writer_data(w, C.byref(n))
                box.append(C.string_at(pdata, n.value) if rc == CIF_OK else None)
                return rc
            finally:
                L.vp_writer_close(w)
        rc = yield go
        return box[-1] if box else None


_write_op('cif_write:cif2', 2)


# ---- the same calls made while a packet iterator is open on another loop -------------------------------------------
# The iterator owns the CIF's transaction; a call made meanwhile works in a nested one.  Whatever happens to the call,
# the iterator's transaction, its position and the update already made through it belong to the caller.

NESTED = '@in-iterator'
NESTABLE = ['cif_create_block', 'cif_get_block', 'cif_container_create_frame', 'cif_container_get_frame',
            'cif_container_get_category_loop', 'cif_container_get_item_loop', 'cif_container_get_value:table',
            'cif_container_get_value:list', 'cif_get_all_blocks', 'cif_container_get_all_frames',
            'cif_container_get_all_loops', 'cif_loop_get_names', 'cif_container_prune', 'cif_container_set_value:new',
            'cif_container_set_value:replace', 'cif_container_set_value:in-loop', 'cif_container_remove_item:scalar',
            'cif_container_remove_item:loop', 'cif_loop_set_category', 'cif_loop_add_item', 'cif_loop_add_packet',
            'cif_container_create_loop:3', 'cif_container_destroy:frame', 'cif_loop_destroy', 'cif_loop_get_category',
            'cif_container_get_code', 'cif_container_assert_block']


def _nest(name, inner, retry):
    @op(name + NESTED, retry)
    def _(L, fx):
        g = inner(L, fx)
        target = next(g)
        rc, it = L.loop_get_packets(fx.loop2)
        if rc != CIF_OK:
            raise HarnessError('cannot open the enclosing iterator: %d' % rc)
        rc, pkt = L.it_next(it, 'new')
        if rc != CIF_OK:
            raise HarnessError('next -> %d' % rc)
        v = L.make_value(('char', 'changed through the enclosing iterator', True))
        L.packet_set(pkt, '_i2', v)
        L.value_free(v)
        rc = L.it_update(it, pkt)
        L.packet_free(pkt)
        if rc != CIF_OK:
            raise HarnessError('update -> %d' % rc)
        rc = yield target
        tx = L.in_transaction(fx.cif)
        rc_next, pkt = L.it_next(it, 'new')
        second = None
        if rc_next == CIF_OK:
            second = L.read_value(L.packet_get(pkt, '_i1')[1])
            L.packet_free(pkt)
        rc_close = L.it_close(it)
        try:
            g.send(rc)
            raise HarnessError('inner op generator yielded twice')
        except StopIteration as e:
            out = e.value
        return (out, ('enclosing iterator', tx, rc_next, second, rc_close))


for _name, _fn, _retry in list(OPS):
    if _name in NESTABLE:
        _nest(_name, _fn, _retry)
_missing = set(NESTABLE) - set(n for n, _, _ in OPS)
assert not _missing, _missing


# ---- runner ------------------------------------------------------------------------------------------------------

class Scenario:
    """one execution of an op on a fresh fixture"""

    def __init__(self, L, opfn):
        self.L = L
        self.fx = Fx(L)
        self.before = self.fx.snapshot()       # taken before the op's preparation, which may open an iterator
        self.gen = opfn(L, self.fx)
        self.target = next(self.gen)

    def finish(self, rc):
        try:
            self.gen.send(rc)
        except StopIteration as e:
            return e.value
        raise HarnessError('op generator yielded twice')

    def close(self):
        self.fx.close()


def arm(L, layer, k):
    (L.vp_lib_fault_arm if layer == 'lib' else L.vp_sq_fault_arm)(k)


def disarm(L, layer):
    f_count, f_deliv = (L.vp_lib_fault_count, L.vp_lib_fault_delivered) if layer == 'lib' else (L.vp_sq_fault_count, L.vp_sq_fault_delivered)
    n, d = f_count(), f_deliv()
    arm(L, layer, 0)
    return n, d


def twin(L, opfn, layer, skip=False):
    """unfaulted run: (allocations in the layer, rc, outputs, final snapshot, snapshot before the call)"""
    sc = Scenario(L, opfn)
    try:
        before = sc.before
        if skip:
            out = sc.finish(None)
            return 0, None, out, sc.fx.snapshot(), before
        arm(L, layer, 0)
        rc = sc.target()
        n, _ = disarm(L, layer)
        out = sc.finish(rc)
        return n, rc, out, sc.fx.snapshot(), before
    finally:
        sc.close()


def ks_for(n, quick):
    if not quick or n <= 70:
        return list(range(1, n + 1))
    ks = list(range(1, 61))
    step = (n - 60) / 11.0
    ks += sorted(set(int(60 + step * j) for j in range(1, 11)))
    return [k for k in ks if k <= n]


def run_op(ctx, case_index, name, opfn, retryable, layer):
    L = ctx.L
    quick = ctx.tier == 'quick'
    info = dict(op=name, layer=layer)
    iterator_op = name.startswith('cif_pktitr_')
    nested = name.endswith(NESTED)
    n, rc_n, out_n, S_n, S_0 = twin(L, opfn, layer)
    _, _, out_skip, S_skip, _ = twin(L, opfn, layer, skip=True)
    if not (ctx.resume and ctx.resume.get('index') == case_index):
        ctx.count('ops')
        ctx.count('allocation_sites_reached:%s' % layer, n)
    ctx.add('ops_run', name)
    if nested and rc_n != CIF_OK:
        ctx.count('nested_operations_refused_inside_an_iterator')     # nothing to fault: the call is not available there
        return
    if rc_n not in (CIF_OK,):
        ctx.inconclusive('%s: the unfaulted call returns %r' % (name, rc_n))
        return
    resume_at = ctx.resume['at'] if ctx.resume and ctx.resume.get('index') == case_index else 0
    if case_index % 17 == 0:
        ctx.sample(dict(op=name, layer=layer, allocations_in_unfaulted_call=n, injections=len(ks_for(n, quick))), 2)
    for k in ks_for(n, quick):
        if k <= resume_at:
            continue
        kinfo = dict(info, k=k, of=n)
        ctx.begin(case_index, dict(op=name, layer=layer, k=k, resume=k))
        scope = LedgerScope(L).__enter__()
        sc = Scenario(L, opfn)
        try:
            if sc.before != S_0:
                raise HarnessError('fixture is not deterministic')
            arm(L, layer, k)
            rc_f = sc.target()
            cnt, delivered = disarm(L, layer)
            ctx.count('injections')
            if not delivered:
                ctx.count('injections_not_delivered')
                sc.finish(rc_f)
                continue
            ctx.count('faults_delivered')
            ctx.add('results_under_fault', '%s' % (rc_f,))
            failed = rc_f in FAILS or rc_f == NULLPTR
            # iterator steps run inside the iterator's transaction; close and abort end it
            tx_expected = nested or (iterator_op and name not in ('cif_pktitr_close', 'cif_pktitr_abort'))
            if nested and not L.in_transaction(sc.fx.cif):
                ctx.violation('fault:%s:%s:enclosing-transaction-lost' % (layer, name), '%s with allocation %d of %d (%s layer) failing returned %s and ended the transaction of the packet iterator that was open on another loop' % (name, k, n, layer, rc_f), kinfo)
                sc.finish(rc_f)
                continue
            if not tx_expected and L.in_transaction(sc.fx.cif):
                ctx.violation('fault:%s:%s:transaction-left-open' % (layer, name), '%s with allocation %d of %d (%s layer) failing returned %s and left a transaction open: every later call that starts one fails' % (name, k, n, layer, rc_f), kinfo)
                sc.finish(rc_f)
                continue
            if not failed and rc_f != rc_n:
                ctx.violation('fault:%s:%s:rc:%s' % (layer, name, rc_f), '%s with allocation %d of %d (%s layer) failing returned %s' % (name, k, n, layer, rc_f), kinfo)
                sc.finish(rc_f)
                continue
            owned_changed = False
            if failed and not iterator_op and name not in ('cif_parse:existing',):
                mid = sc.fx.snapshot(with_cif=not nested)      # (no second iterator, hence no dump, inside an iterator)
                if not nested and mid[0] != S_0[0]:
                    ctx.violation('fault:%s:%s:cif-changed' % (layer, name), '%s failed with %s (allocation %d of %d) but changed the managed CIF: %s' % (name, rc_f, k, n, D.first_difference(mid[0], S_0[0])), kinfo)
                    sc.finish(rc_f)
                    continue
                if not sc.fx.owned_valid(mid):
                    ctx.violation('fault:%s:%s:owned-object-invalid' % (layer, name), '%s failed with %s (allocation %d of %d) and left a caller-owned object malformed: %r' % (name, rc_f, k, n, str(mid[1:])[:300]), kinfo)
                    sc.finish(rc_f)
                    continue
                # a failed call may alter (not invalidate) an object the caller owns; the twins then no longer predict
                # the content of those objects
                owned_changed = mid[1:] != S_0[1:]
                if owned_changed:
                    ctx.count('failed_calls_that_altered_a_caller_owned_object')
            rc_final = rc_f
            if failed and retryable:
                rc_r = sc.target()
                if rc_r != rc_n and iterator_op and layer == 'sqlite':
                    # the storage engine ends the iterator's transaction when a statement runs out of memory inside it
                    ctx.violation('fault:sqlite:%s:iterator-not-resumable' % name, 'after failing with %s (SQLite allocation %d of %d) the repeated %s returned %s: the iterator cannot be used any more' % (rc_f, k, n, name, rc_r), kinfo)
                    sc.finish(rc_r)
                    continue
                if rc_r != rc_n:
                    ctx.violation('fault:%s:%s:retry:rc:%s' % (layer, name, rc_r), 'after failing with %s (allocation %d of %d) the repeated %s returned %s' % (rc_f, k, n, name, rc_r), kinfo)
                    sc.finish(rc_r)
                    continue
                rc_final = rc_r
                ctx.count('retries_ok')
            out = sc.finish(rc_final)
            S_f = sc.fx.snapshot()
            if rc_final == rc_n:
                want_S, want_out, what = S_n, out_n, 'the normal'
            else:
                want_S, want_out, what = S_skip, out_skip, 'the call-skipped'
            if nested and out[1] != want_out[1]:
                ctx.violation('fault:%s:%s:enclosing-iterator-broken' % (layer, name), '%s (allocation %d of %d failing, result %s): the packet iterator open on another loop then answered (transaction open, next, next packet, close) = %r; unfaulted %r' % (name, k, n, rc_f, out[1][1:], want_out[1][1:]), kinfo)
                continue
            if name == 'cif_parse:existing' and rc_final != rc_n:
                pass        # the documentation allows partial content; consistency was checked by the dump
            elif owned_changed or iterator_op:
                # iterator steps: a failed step may have consumed a row or touched the caller's packet; only the
                # managed CIF and the well-formedness of the caller's objects are judged
                if iterator_op and not sc.fx.owned_valid(S_f):
                    ctx.violation('fault:%s:%s:owned-object-invalid' % (layer, name), '%s (allocation %d of %d failing, result %s) left a caller-owned object malformed' % (name, k, n, rc_f), kinfo)
                    continue
                if S_f[0] != want_S[0]:
                    ctx.violation('fault:%s:%s:final-state' % (layer, name), '%s (allocation %d of %d failing, result %s, final result %s): the managed CIF differs from %s twin: %s' % (name, k, n, rc_f, rc_final, what, D.first_difference(S_f[0], want_S[0])), kinfo)
                    continue
            elif S_f != want_S:
                ctx.violation('fault:%s:%s:final-state' % (layer, name), '%s (allocation %d of %d failing, result %s, final result %s): final state differs from %s twin: %s' % (name, k, n, rc_f, rc_final, what, D.first_difference(S_f, want_S)), kinfo)
                continue
            elif out != want_out:
                ctx.violation('fault:%s:%s:outputs' % (layer, name), '%s (allocation %d of %d failing, result %s): outputs %r, %s twin %r' % (name, k, n, rc_f, str(out)[:200], what, str(want_out)[:200]), kinfo)
                continue
            if not failed:
                ctx.count('absorbed_faults')
            ctx.count('injections_consistent')
        except D.DumpError as e:
            ctx.violation('fault:%s:%s:unusable' % (layer, name), '%s with allocation %d of %d failing: the CIF cannot be dumped afterwards: %s' % (name, k, n, e), kinfo)
        finally:
            arm(L, layer, 0)
            sc.close()
        for suffix, detail in scope.finish():
            ctx.violation('fault:%s:%s:%s' % (layer, name, suffix), '%s with allocation %d of %d failing: %s' % (name, k, n, detail), kinfo)
        ctx.drain_events(kinfo, prefix='fault:%s:%s:' % (layer, name))


# ---- calls on the handles a parser hands to its callbacks ----------------------------------------------------------
# The loop handle given to handle_loop_start during cif_parse is an object of its own kind (it carries its names and
# category itself and belongs to no stored loop yet).  The queries on it are faulted where they are made: inside the
# callback, the parse around them running unfaulted.  (cif_loop_set_category there answers CIF_INVALID_HANDLE although
# it takes effect - DESIGN section 5 item 21 - so it has no unfaulted twin to compare with and is left out.)

PT_DOC = b"#\\#CIF_2.0\ndata_pt\n_a 1\nloop_\n_pt.one _pt.Two _pt.three\n1 2 3\n4 5 6\n_z 2\n"
PT_CALLS = [
    ('cif_loop_get_names@parse-time-handle', lambda L, h: L.loop_get_names(h)),
    ('cif_loop_get_category@parse-time-handle', lambda L, h: L.loop_get_category(h)),
]


def run_parse_time(ctx, case_index, name, call, layer):
    from .. import parsing
    L = ctx.L

    def parse(k):
        """one storing parse; the hook makes the call with allocation k of the layer failing (0: none), then once more
        unfaulted; returns (parse rc, problems, allocations counted, delivered, faulted result, repeated result, dump)"""
        seen = {}

        def hook(handle):
            if seen:
                return
            arm(L, layer, k)
            r1 = call(L, handle)
            cnt, deliv = disarm(L, layer)
            r2 = call(L, handle) if r1[0] != CIF_OK else r1
            seen.update(cnt=cnt, deliv=deliv, first=r1, second=r2)
        res = parsing.parse(L, PT_DOC, parsing.make_opts(), 'new', 'accept', loop_start_hook=hook)
        dump = None
        if res.cif:
            if res.rc == CIF_OK:
                dump = D.dump(L, res.cif)
            if L.destroy(res.cif) != CIF_OK:
                raise HarnessError('destroy of the parsed CIF')
        return res.rc, list(res.problems), seen, dump

    rc0, problems0, seen0, dump0 = parse(0)
    if rc0 != CIF_OK or not seen0 or seen0['first'][0] != CIF_OK or problems0:
        ctx.inconclusive('%s: the unfaulted scenario does not work: parse %r, call %r, %r' % (name, rc0, seen0.get('first'), problems0[:1]))
        return
    n = seen0['cnt']
    ctx.count('ops')
    ctx.count('allocation_sites_reached:%s' % layer, n)
    ctx.add('ops_run', name)
    for k in range(1, n + 1):
        kinfo = dict(op=name, layer=layer, k=k, of=n)
        ctx.begin(case_index, dict(op=name, layer=layer, k=k))
        scope = LedgerScope(L).__enter__()
        try:
            rc, problems, seen, dump = parse(k)
            ctx.count('injections')
            if not seen or not seen['deliv']:
                ctx.count('injections_not_delivered')
            else:
                ctx.count('faults_delivered')
                r1, r2 = seen['first'], seen['second']
                ctx.add('results_under_fault', '%s' % (r1[0],))
                if r1[0] != CIF_OK and r1[0] not in FAILS:
                    ctx.violation('fault:%s:%s:rc:%s' % (layer, name, r1[0]), '%s with allocation %d of %d (%s layer) failing returned %s' % (name, k, n, layer, r1[0]), kinfo)
                elif r2[0] != CIF_OK or r2[1] != seen0['first'][1]:
                    ctx.violation('fault:%s:%s:retry:rc:%s' % (layer, name, r2[0]), 'after failing with %s (allocation %d of %d) the repeated %s gave %r, unfaulted %r' % (r1[0], k, n, name, r2, seen0['first']), kinfo)
                elif rc != CIF_OK or problems or dump != dump0:
                    ctx.violation('fault:%s:%s:enclosing-parse' % (layer, name), 'the parse around the failed and repeated %s: result %r, %r; content %s' % (name, rc, problems[:1], 'as unfaulted' if dump == dump0 else D.first_difference(dump, dump0)), kinfo)
                else:
                    if r1[0] == CIF_OK:
                        ctx.count('absorbed_faults')
                    ctx.count('injections_consistent')
        except D.DumpError as e:
            ctx.violation('fault:%s:%s:unusable' % (layer, name), '%s with allocation %d of %d failing: the parsed CIF cannot be dumped: %s' % (name, k, n, e), kinfo)
        finally:
            arm(L, layer, 0)
        for suffix, detail in scope.finish():
            ctx.violation('fault:%s:%s:%s' % (layer, name, suffix), '%s with allocation %d of %d failing: %s' % (name, k, n, detail), kinfo)
        ctx.drain_events(kinfo, prefix='fault:%s:%s:' % (layer, name))


def all_cases():
    # inside an open iterator only the library's own allocations are faulted: an allocation failure inside the storage
    # engine ends the enclosing transaction whatever the library does (recorded finding, DESIGN 7.2), for every call alike
    return [(name, fn, retry, layer) for (name, fn, retry) in OPS for layer in ('lib', 'sqlite')
            if not (name.endswith(NESTED) and layer == 'sqlite')] + [(name, call, 'parse-time', 'lib') for name, call in PT_CALLS]


def worker(ctx):
    cases = all_cases()
    if ctx.params.get('_single') is not None:
        ctx.single = ctx.params['_single']
    for i in ctx.cases(len(cases)):
        name, fn, retry, layer = cases[i]
        ctx.begin(i, dict(op=name, layer=layer))
        if retry == 'parse-time':
            run_parse_time(ctx, i, name, fn, layer)
        else:
            run_op(ctx, i, name, fn, retry, layer)


def run(env):
    res = env.run_pool(MODULE, dict(), nshards=16, case_timeout=300, total_timeout=3000 if env.quick else 40000, resume_in_case=True, max_restarts=3000)
    inconclusive = list(res.inconclusive)
    nops = len(all_cases())
    if res.count('ops') < nops and not res.violations:
        inconclusive.append('only %d of %d (operation, layer) pairs ran' % (res.count('ops'), nops))
    return dict(
        level='fault_enumeration',
        coverage=dict(
            evaluations=res.count('injections'), distinct_nontrivial=res.count('injections_consistent'),
            rule='one evaluation = one execution of one public call on a fresh fixture with the k-th allocation of one '
                 'layer failing (every k up to the count of the unfaulted twin; quick: the first 60 and 10 evenly spaced '
                 'later ones); non-trivial = the fault was delivered and result, caller-owned objects, state, retry and '
                 'final state all agreed with the twins',
            samples=res.samples, operations=len(OPS) + len(PT_CALLS), functions_covered=len(set(n.split(':')[0] for n, _, _ in OPS)),
            operation_layer_pairs_run=res.count('ops'), faults_delivered=res.count('faults_delivered'),
            injections_not_delivered=res.count('injections_not_delivered'), retries_ok=res.count('retries_ok'),
            faults_absorbed_with_normal_result=res.count('absorbed_faults'),
            allocations_reached_library=res.count('allocation_sites_reached:lib'),
            allocations_reached_sqlite=res.count('allocation_sites_reached:sqlite'),
            results_under_fault=sorted(res.sets.get('results_under_fault', ())), crashes=res.crashes),
        violations=res.violations, inconclusive=inconclusive,
        assumptions=['calls made inside an open packet iterator (the "@in-iterator" operations) are faulted in the library layer only: '
                     'a storage-engine allocation failure there ends the enclosing transaction for every call alike (recorded finding)',
                     'ICU allocations are not faulted (the statement names library, hash-table and storage-engine allocations)',
                     'cif_parse into an existing CIF may leave partial content (documented); only consistency is judged there',
                     'a failed cif_destroy / cif_container_destroy / cif_loop_destroy is not retried'])


def replay(env, rec):
    env.single = (rec.get('case') or {}).get('index')
    return run(env)
