"""C11 - CIF version and character encoding are selected exactly as documented.

Exhaustive product {no magic, 1.1, 1.0, 2.0, 2.0 on line 2, 2.0 after a blank} x {BOM, no BOM} x prefer_cif2 in
{-5,-1,0,1,19,20,99} x {UTF-8, UTF-16LE/BE, UTF-32LE/BE, named 8-bit default, UTF-16LE named default without BOM}
x force_default_encoding x {ASCII-only, non-ASCII} probe document.  The dialect is observed through an error-free
probe whose reading differs (a line-folded text field); the decision function below is transcribed from the property
statement.  Cells the statement does not determine (bytes decoded with an encoding they are not in) are executed for
safety only and counted as undetermined."""
import ctypes as C
import ctypes.util

from .. import dump as D
from .. import parsing
from ..lib import *      # noqa: F401,F403
from ..monitors import LedgerScope

MODULE = __name__

MAGICS = ['none', '1.1', '1.0', '2.0', '2.0-line2', '2.0-after-blank']
PREFERS = [-5, -1, 0, 1, 19, 20, 99]
ENCODINGS = ['UTF-8', 'UTF-16LE', 'UTF-16BE', 'UTF-32LE', 'UTF-32BE', 'latin1-default', 'utf16le-default',
             'win1252-default', 'iso885915-default', 'koi8r-default', 'ascii-default', 'mac-default']
PY_CODEC = {'UTF-8': 'utf-8', 'UTF-16LE': 'utf-16-le', 'UTF-16BE': 'utf-16-be', 'UTF-32LE': 'utf-32-le',
            'UTF-32BE': 'utf-32-be', 'latin1-default': 'latin-1', 'utf16le-default': 'utf-16-le',
            'win1252-default': 'cp1252', 'iso885915-default': 'iso8859-15', 'koi8r-default': 'koi8-r', 'ascii-default': 'ascii',
            'mac-default': 'mac-roman'}
# encodings that are named through default_encoding_name (the converter names sort on both sides of "UTF-8")
NAMED = {'latin1-default': 'ISO-8859-1', 'utf16le-default': 'UTF-16LE', 'win1252-default': 'windows-1252',
         'iso885915-default': 'ISO-8859-15', 'koi8r-default': 'KOI8-R', 'ascii-default': 'US-ASCII', 'mac-default': 'macintosh'}
EIGHT_BIT = {'ISO-8859-1', 'windows-1252', 'ISO-8859-15', 'KOI8-R', 'US-ASCII', 'macintosh'}
ASCII_ONLY_PROBE = {'koi8r-default', 'ascii-default'}          # the non-ASCII probe text is not in their repertoire
ASCII_COMPATIBLE = {'UTF-8', 'latin1-default', 'ANSI_X3.4-1968', 'ASCII'} | EIGHT_BIT


def system_default_converter():
    for n in range(60, 90):
        try:
            lib = C.CDLL('libicuuc.so.%d' % n)
            fn = getattr(lib, 'ucnv_getDefaultName_%d' % n)
            fn.restype = C.c_char_p
            return fn().decode()
        except (OSError, AttributeError):
            continue
    return None


def cells():
    out = []
    for magic in MAGICS:
        for bom in (0, 1):
            for prefer in PREFERS:
                for enc in ENCODINGS:
                    for force in (0, 1):
                        for nonascii in (0, 1):
                            if nonascii and enc in ASCII_ONLY_PROBE:
                                continue
                            out.append((magic, bom, prefer, enc, force, nonascii))
    return out


def document(magic, nonascii):
    head = {'none': '', '1.1': '#\\#CIF_1.1\n', '1.0': '#\\#CIF_1.0\n', '2.0': '#\\#CIF_2.0\n',
            '2.0-line2': '\n#\\#CIF_2.0\n', '2.0-after-blank': ' #\\#CIF_2.0\n'}[magic]
    plain = 'caféü' if nonascii else 'cafe'
    return head + "data_probe\n_folded\n;\\\nab\\\ncd\n;\n_plain '%s'\n" % plain, plain


def decide_version(magic, prefer):
    """transcribed from the statement"""
    if prefer < 0:
        return 1
    if prefer >= 20:
        return 2
    if magic == '2.0':
        return 2
    if magic in ('none', '2.0-line2', '2.0-after-blank'):
        # "no comment" - a comment that is not the very first thing is not a version comment
        return 2 if prefer > 0 else 1
    return 1        # a comment for another version


def decide(cell, sysdefault):
    """returns dict(version, used, determined, wrong_encoding)"""
    magic, bom, prefer, enc, force, nonascii = cell
    version = decide_version(magic, prefer)
    named = NAMED.get(enc)
    actual = NAMED.get(enc, enc)
    signature = bom and actual.startswith('UTF')
    if force:
        used = named or ('SYSTEM:' + str(sysdefault))
    elif signature:
        used = actual
    elif version == 2:
        used = 'UTF-8'
    else:
        used = named or ('SYSTEM:' + str(sysdefault))
    u = used.split(':')[-1]
    if u == actual:
        decodes = True
    elif not nonascii and not bom and u in ASCII_COMPATIBLE and actual in ({'UTF-8'} | EIGHT_BIT):
        decodes = True      # pure ASCII bytes read the same in every ASCII-compatible encoding
    elif not nonascii and bom and actual == 'UTF-8' and u == 'UTF-8':
        decodes = True
    else:
        decodes = False
    # without a signature the version comment itself must be readable before the encoding is known: the statement
    # only covers multi-byte encodings recognised by their signature (and the named 8-bit default)
    determined = decodes and not (enc == 'utf16le-default') and not (actual.startswith('UTF-1') or actual.startswith('UTF-3')) or \
        (decodes and signature)
    if force and bom and u not in ('UTF-8',) and not u.startswith('UTF'):
        determined = False   # a BOM decoded through an 8-bit encoding is garbage
    if bom and actual in EIGHT_BIT:
        determined = False   # a UTF-8 signature in front of Latin-1 bytes is a contradictory file
    we = None
    if determined and version == 2:
        if u == 'UTF-8':
            we = False
        elif used.startswith('SYSTEM:'):
            we = None       # don't care: the platform default applied to ASCII bytes
        else:
            we = True
    elif determined:
        we = False
    return dict(version=version, used=used, determined=determined, wrong_encoding=we)


def encode(text, enc, bom):
    data = text.encode(PY_CODEC[enc])
    if bom:
        b = '\ufeff'.encode(PY_CODEC[enc]) if NAMED.get(enc) not in EIGHT_BIT else b'\xef\xbb\xbf'
        data = b + data
    return data


def run_cell(ctx, L, cell, sysdefault):
    magic, bom, prefer, enc, force, nonascii = cell
    text, plain = document(magic, nonascii)
    data = encode(text, enc, bom)
    named = NAMED[enc].encode() if enc in NAMED else None
    opts = parsing.make_opts(prefer_cif2=prefer, encoding=named, force=force)
    res = parsing.parse(L, data, opts, 'new', 'accept')
    info = dict(cell=list(cell))
    exp = decide(cell, sysdefault)
    info['expected'] = exp
    try:
        if force and named is None and sysdefault:
            # "the named or system default, with force_default_encoding overriding detection": forcing the default
            # without naming it is forcing the system default - whatever the bytes are, the outcome is that of forcing
            # the same converter by its name (this also covers the cells whose content the statement leaves open)
            twin = parsing.parse(L, data, parsing.make_opts(prefer_cif2=prefer, encoding=sysdefault.encode(), force=1), 'new', 'accept')
            try:
                a = (res.rc, [e[:3] for e in res.errors], D.dump(L, res.cif) if res.cif else None)
                b = (twin.rc, [e[:3] for e in twin.errors], D.dump(L, twin.cif) if twin.cif else None)
            finally:
                if twin.cif:
                    L.destroy(twin.cif)
            ctx.count('forced_system_default_twins')
            if a != b:
                ctx.violation('select:forced-system-default:differs-from-named', 'force_default_encoding with no name gave (result, errors, content) that differ from forcing %r by name: %s'
                              % (sysdefault, D.first_difference(a, b)), info)
                return
        for k, d in res.problems:
            ctx.violation(k, d, info)
        if res.rc not in DEFINED_CODES:
            ctx.violation('select:rc-undefined', 'cif_parse -> %d' % res.rc, info)
        codes = [e[0] for e in res.errors]
        if not exp['determined']:
            ctx.count('undetermined_cells')
            return
        ctx.count('determined_cells')
        d = D.dump(L, res.cif) if res.cif else None
        vals = {}
        if d and d[1]:
            for blk in d[1]:
                for loop in blk[2]:
                    for pk in loop[2]:
                        for n, v in pk:
                            vals[n] = v
        folded = vals.get('_folded')
        if folded is None or folded[0] != 'char':
            ctx.violation('select:probe-missing:v%d' % exp['version'], 'probe item _folded missing from the parse (rc=%d errors=%r)' % (res.rc, codes[:6]), info)
            return
        observed = 2 if folded[1] == 'abcd' else (1 if folded[1] == '\\\nab\\\ncd' else 0)
        ctx.add('cells', '%s/bom%d/p%d/%s/f%d -> v%d %s' % (magic, bom, prefer, enc, force, observed, exp['used']))
        if observed != exp['version']:
            ctx.violation('select:version:%s:prefer%s:want%d:got%d' % (magic, 'neg' if prefer < 0 else ('0' if prefer == 0 else ('lt20' if prefer < 20 else 'ge20')), exp['version'], observed),
                          'input with magic=%s bom=%d prefer_cif2=%d encoding=%s force=%d was parsed as CIF %s; the documentation prescribes CIF %d.%d (folded probe read %r)'
                          % (magic, bom, prefer, enc, force, observed, exp['version'], 0 if exp['version'] == 2 else 1, folded[1]), info)
            return
        got_plain = vals.get('_plain')
        if got_plain is None or got_plain[1] != plain:
            if not (exp['version'] == 1 and nonascii):
                ctx.violation('select:content:%s' % enc, 'value decoded as %r, expected %r (encoding %s, decision %s)' % (got_plain, plain, enc, exp['used']), info)
                return
        has_we = CIF_WRONG_ENCODING in codes
        if exp['wrong_encoding'] is True and not has_we:
            ctx.violation('select:wrong-encoding:missing:%s' % enc, 'CIF 2.0 content decoded as %s was not reported as CIF_WRONG_ENCODING (errors %r)' % (exp['used'], codes[:6]), info)
            return
        if exp['wrong_encoding'] is False and has_we:
            ctx.violation('select:wrong-encoding:spurious:%s' % enc, 'CIF_WRONG_ENCODING reported although the decision is %s / CIF %d (errors %r)' % (exp['used'], exp['version'], codes[:6]), info)
            return
        allowed = {CIF_WRONG_ENCODING}
        if exp['version'] == 1:
            allowed.add(CIF_DISALLOWED_CHAR)         # BOM / non-ASCII characters in CIF 1.1
        other = [c for c in codes if c not in allowed]
        if other:
            ctx.violation('select:spurious-error:%d:v%d' % (other[0], exp['version']), 'unexpected error(s) %r in a determined cell' % (other[:6],), info)
            return
        ctx.count('cells_agreeing')
    finally:
        if res.cif:
            L.destroy(res.cif)


def bom_position_cases(ctx, L):
    """in CIF 2.0 a byte-order mark is accepted only as the very first character"""
    base = '#\\#CIF_2.0\ndata_b\n_a 1\n'
    for label, text, want_err in (
            ('first', '\ufeff' + base, False),
            ('after-magic', '#\\#CIF_2.0\n\ufeffdata_b\n_a 1\n', True),
            ('second-char', '\ufeff\ufeff' + base, True),
            ('in-whitespace', '#\\#CIF_2.0\ndata_b\n_a \ufeff 1\n', True),
            ('in-quoted', "#\\#CIF_2.0\ndata_b\n_a 'x\ufeffy'\n", True),
            ('in-text', '#\\#CIF_2.0\ndata_b\n_a\n;x\ufeffy\n;\n', True),
            ('at-end', base + '\ufeff', True)):
        res = parsing.parse(L, text.encode('utf-8'), parsing.make_opts(), 'new', 'accept')
        codes = [e[0] for e in res.errors]
        if res.cif:
            L.destroy(res.cif)
        ctx.count('bom_position_cases')
        bad = [c for c in codes if c in (CIF_DISALLOWED_CHAR, CIF_DISALLOWED_INITIAL_CHAR, CIF_INVALID_CHAR)]
        if want_err and not bad:
            ctx.violation('select:bom-accepted:%s' % label, 'a byte-order mark %s was accepted silently (errors %r)' % (label, codes), dict(bom=label))
        if not want_err and codes:
            ctx.violation('select:bom-first-rejected', 'a leading byte-order mark produced errors %r' % (codes,), dict(bom=label))

LONG_ENCODINGS = ['UTF-8', 'UTF-16LE', 'UTF-16BE', 'UTF-32LE', 'UTF-32BE']
LONG_PADS = 19


def long_document(pad):
    """a CIF 2.0 document of about 5 000 characters (13 kB in UTF-8) whose values mix 1-, 2-, 3- and 4-byte
    characters; the pad slides every multi-unit character across the byte offsets at which the reader refills"""
    unit = 'a\u00e9\u20ac\U0001f600\u00fc\u4e2d\U00010348z'
    lines = ['#\\#CIF_2.0', '#' + '.' * pad, 'data_long']
    want = {}
    for k in range(60):
        v = (unit * 10)[k % 8:] + str(k)
        lines.append("_v%d '%s'" % (k, v))
        want['_v%d' % k] = v
    return '\n'.join(lines) + '\n', want


def long_document_cases(ctx, L, pad):
    """"the same text supplied in any encoding recognised by its signature yields the same content" - for texts longer
    than the reader's byte buffer, with characters of every encoded length at every phase relative to it"""
    text, want = long_document(pad)
    for enc in LONG_ENCODINGS:
        for bom in ((0, 1) if enc == 'UTF-8' else (1,)):
            data = encode(text, enc, bom)
            res = parsing.parse(L, data, parsing.make_opts(), 'new', 'accept')
            info = dict(long=dict(pad=pad, enc=enc, bom=bom))
            try:
                ctx.count('long_document_cases')
                for k, d in res.problems:
                    ctx.violation(k, d, info)
                codes = [e[0] for e in res.errors]
                d = D.dump(L, res.cif) if res.cif else None
                vals = {}
                if d and d[1]:
                    for blk in d[1]:
                        for loop in blk[2]:
                            for pk in loop[2]:
                                for n, v in pk:
                                    vals[n] = v[1] if v[0] == 'char' else v
                if vals != want:
                    diff = sorted(n for n in set(vals) | set(want) if vals.get(n) != want.get(n))
                    ctx.violation('select:long:content:%s' % enc, '%d-byte document in %s (bom %d, pad %d): %d of %d values differ from the text, first %s = %r (errors %r)'
                                  % (len(data), enc, bom, pad, len(diff), len(want), diff[0], vals.get(diff[0]), codes[:6]), info)
                    continue
                other = [c for c in codes if c != CIF_WRONG_ENCODING]
                if other or (enc == 'UTF-8' and codes):
                    ctx.violation('select:long:spurious-error:%d:%s' % ((other or codes)[0], enc), 'unexpected error(s) %r for a %d-byte document in %s' % (codes[:6], len(data), enc), info)
                    continue
                if enc != 'UTF-8' and not codes:
                    ctx.violation('select:long:wrong-encoding:missing:%s' % enc, 'CIF 2.0 content in %s was not reported as CIF_WRONG_ENCODING' % enc, info)
                    continue
                ctx.count('long_document_cases_agreeing')
            finally:
                if res.cif:
                    L.destroy(res.cif)


def worker(ctx):
    L = ctx.L
    allc = cells()
    sysdefault = system_default_converter()
    ctx.add('sysdefault', str(sysdefault))
    if ctx.params.get('_single') is not None:
        ctx.single = ctx.params['_single']
    scope = LedgerScope(L).__enter__()
    for i in ctx.cases(len(allc)):
        ctx.begin(i, allc[i])
        ctx.count('cells')
        run_cell(ctx, L, allc[i], sysdefault)
        ctx.drain_events(dict(index=i, cell=list(allc[i])))
        if i == 0:
            bom_position_cases(ctx, L)
        if i % 200 == 3 and i // 200 < LONG_PADS:
            long_document_cases(ctx, L, i // 200)
        if i % 601 == 0:
            ctx.sample(dict(index=i, cell=list(allc[i]), decision=decide(allc[i], sysdefault)), 4)
    for suffix, detail in scope.finish():
        ctx.violation(suffix, detail, dict(index=-1))


def run(env):
    n = len(cells())
    res = env.run_pool(MODULE, {}, nshards=16)
    inconclusive = list(res.inconclusive)
    if res.count('cells') < n and not res.violations:
        inconclusive.append('only %d of %d cells ran' % (res.count('cells'), n))
    return dict(
        level='exploration',
        coverage=dict(
            evaluations=res.count('cells'), distinct_nontrivial=res.count('cells_agreeing'),
            rule='one evaluation = one cell of the configuration matrix (magic x BOM x prefer_cif2 x encoding x force x '
                 'content), distinct by construction; non-trivial = determined by the statement and observed dialect, '
                 'decoded content and CIF_WRONG_ENCODING report all as prescribed',
            samples=res.samples, exhaustive=True, matrix_cells=n, determined_cells=res.count('determined_cells'),
            undetermined_cells_run_for_safety_only=res.count('undetermined_cells'),
            bom_position_cases=res.count('bom_position_cases'),
            long_document_cases_13kB_in_5_encodings_x_pad=res.count('long_document_cases'),
            long_document_cases_agreeing=res.count('long_document_cases_agreeing'),
            forced_system_default_cells_compared_with_forcing_it_by_name=res.count('forced_system_default_twins'),
            system_default_converter=sorted(res.sets.get('sysdefault', ())),
            observed_decisions=len(res.sets.get('cells', ())), crashes=res.crashes),
        violations=res.violations, inconclusive=inconclusive,
        assumptions=['a cell is "determined" only when the encoding the documentation selects is one the bytes are '
                     'actually in (or both are ASCII-compatible and the content is ASCII)',
                     'CIF_DISALLOWED_CHAR reports for a BOM or non-ASCII characters are tolerated in CIF 1.1 mode'])


def replay(env, rec):
    return run(env)
