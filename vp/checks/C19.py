"""C19 - value objects are independent deep values; lists, tables and packets keep their contracts.

Random histories over a pool of value slots and packets, executed against the real (ASan+UBSan, ledgered) library
in lock-step with the functional reference model of vp/valmodel.py.  After every step the objects touched are read
back through the accessor API and compared with the model; every few steps *all* live objects are compared, which is
what exposes shared storage between a clone and its original (the other object changes, or ASan fires).  At the end
of a history everything is released and the allocation ledger must balance."""
from .. import gen_values as G
from .. import names as N
from .. import valmodel as M
from ..lib import *      # noqa: F401,F403  (result codes)
from ..monitors import LedgerScope

MODULE = __name__

NAME_POOL = [sp for _, sps in N.item_names()[:6] for sp in sps]
KEY_POOL = ['k', 'K', 'key 1', '', ' ', '\u00e9', 'e\u0301', '\u00c9', '\u00c5', 'A\u030a', 'x\u0323\u0307',
            'x\u0307\u0323', '\U0001f600', "a'b", 'a"b', ';', '\\', 'long' * 30,
            # a composition exclusion (its NFC form is one unit longer than the key as given), the same key spelled
            # out, and the different key it would become if its last unit were lost; compatibility look-alikes, which
            # are different keys
            'k\u0958', 'k\u0915\u093c', 'k\u0915', 'x\u00b2', 'x2', '\ufb01', 'fi', '\u00b5', '\u03bc']
BAD_KEYS = ['a\x01', 'b\ufffe', 'c\ud800', '\udc00d', 'e\ufdd0', 'f\x7f', 'g\U0001ffff']


class Mismatch(Exception):
    def __init__(self, key, detail):
        Exception.__init__(self, detail)
        self.key = key
        self.detail = detail


class Session:
    def __init__(self, L, rng, ctx):
        self.L = L
        self.rng = rng
        self.ctx = ctx
        self.vals = {}       # sid -> [ptr, model]
        self.pkts = {}       # pid -> [ptr, model]
        self.next_id = 0
        self.log = []

    # -- helpers --
    def new_id(self):
        self.next_id += 1
        return self.next_id

    def expect(self, op, rc, rcs, extra=''):
        self.ctx.add('op_rc', '%s:%d' % (op, rc))
        if rc not in rcs:
            raise Mismatch('model:%s:%s:%d' % (op, '|'.join(str(r) for r in sorted(rcs)), rc),
                           '%s returned %d, the model allows %s %s' % (op, rc, sorted(rcs), extra))

    def pick_value_path(self, want_kind=None, nested_ok=True):
        """(sid, steps) of a random live value (possibly a nested member)"""
        if not self.vals:
            return None
        rng = self.rng
        sid = rng.choice(sorted(self.vals))
        v = self.vals[sid][1]
        steps = []
        while nested_ok and v[0] in ('list', 'table') and v[1] and rng.random() < 0.45:
            if v[0] == 'list':
                i = rng.randrange(len(v[1]))
                steps.append(('i', i))
                v = v[1][i]
            else:
                k, e = rng.choice(v[1])
                steps.append(('k', k))
                v = e
        return sid, tuple(steps)

    def pick_of_kind(self, kind, tries=8):
        for _ in range(tries):
            p = self.pick_value_path()
            if p and M.get_at(self.vals[p[0]][1], p[1])[0] == kind:
                return p
        return None

    def ptr_at(self, sid, steps):
        L = self.L
        p = self.vals[sid][0]
        for kind, arg in steps:
            if kind == 'i':
                rc, p = L.list_get(p, arg)
            else:
                rc, p = L.table_get(p, arg)
            if rc != CIF_OK:
                raise Mismatch('model:navigate:0:%d' % rc, 'navigating %r of slot %d failed with %d' % (steps, sid, rc))
        return p

    def model_at(self, sid, steps):
        return M.get_at(self.vals[sid][1], steps)

    def update(self, sid, steps, new):
        self.vals[sid][1] = M.set_at(self.vals[sid][1], steps, new)

    def read_packet(self, ptr):
        L = self.L
        rc, names = L.packet_names(ptr)
        if rc != CIF_OK:
            raise Mismatch('model:packet_get_names:0:%d' % rc, 'cif_packet_get_names -> %d' % rc)
        ents = []
        for n in names:
            rc, v = L.packet_get(ptr, n)
            if rc != CIF_OK:
                raise Mismatch('model:packet_get_item:0:%d' % rc, 'name %r enumerated but not found (%d)' % (n, rc))
            ents.append((n, M.canon(L.read_value(v))))
        return ('packet', tuple(ents))

    def verify(self, sids=None, pids=None, op='?'):
        L = self.L
        for sid in (sorted(self.vals) if sids is None else sids):
            if sid not in self.vals:
                continue
            ptr, model = self.vals[sid]
            got = M.canon(L.read_value(ptr))
            if got != M.canon(model):
                from ..dump import first_difference
                raise Mismatch('state:%s:value-differs' % op,
                               'after %s, value slot %d differs from the model: %s' % (op, sid, first_difference(got, M.canon(model), 'value')))
        for pid in (sorted(self.pkts) if pids is None else pids):
            if pid not in self.pkts:
                continue
            ptr, model = self.pkts[pid]
            got = self.read_packet(ptr)
            want = ('packet', tuple((n, M.canon(v)) for n, v in model[1]))
            if got != want:
                from ..dump import first_difference
                raise Mismatch('state:%s:packet-differs' % op,
                               'after %s, packet %d differs from the model: %s' % (op, pid, first_difference(got, want, 'packet')))

    # -- source operands --
    def pick_source(self):
        """('none',) | ('path', sid, steps)"""
        if self.rng.random() < 0.15 or not self.vals:
            return ('none',)
        sid, steps = self.pick_value_path()
        return ('path', sid, steps)

    def source_ptr_model(self, src):
        if src[0] == 'none':
            return None, None
        return self.ptr_at(src[1], src[2]), self.model_at(src[1], src[2])

    @staticmethod
    def related(sid_a, steps_a, sid_b, steps_b):
        """is one path a prefix of the other (same object, ancestor or descendant)?"""
        if sid_a != sid_b:
            return False
        n = min(len(steps_a), len(steps_b))
        return steps_a[:n] == steps_b[:n]

    # -- one random step --
    def step(self):
        rng = self.rng
        L = self.L
        ops = ['create', 'create', 'gen', 'gen', 'free', 'clean', 'clone_new', 'clone_into', 'init', 'copy_char',
               'init_char', 'parse_numb', 'init_numb', 'autoinit', 'set_quoted', 'try_quoted', 'get_number', 'get_su',
               'query', 'l_get', 'l_set', 'l_set', 'l_insert', 'l_insert', 'l_insert', 'l_remove', 'l_remove',
               't_set', 't_set', 't_set', 't_get', 't_remove', 't_keys', 'alias_set', 'self_insert',
               'p_create', 'p_set', 'p_set', 'p_get', 'p_remove', 'p_free', 'p_alias', 'grow']
        op = rng.choice(ops)
        self.log.append(op)
        self.ctx.count('steps')
        touched_v, touched_p = set(), set()
        if op == 'create' or not self.vals:
            kind = rng.choice([KIND_CHAR, KIND_NUMB, KIND_LIST, KIND_TABLE, KIND_NA, KIND_UNK, 99])
            rc, p = L.value_create(kind)
            if kind == 99:
                self.expect('value_create(badkind)', rc, {CIF_ARGUMENT_ERROR})
                return
            self.expect('value_create', rc, {CIF_OK})
            sid = self.new_id()
            self.vals[sid] = [p, M.default_of(kind)]
            touched_v.add(sid)
        elif op == 'gen':
            pv = G.rand_value(rng, depth=rng.choice([1, 2, 3, 4]), width=rng.choice([2, 4, 5, 9, 17]))
            p = L.make_value(pv)
            sid = self.new_id()
            self.vals[sid] = [p, pv]
            touched_v.add(sid)
        elif op == 'grow':
            # push a list across its capacity boundaries (4, 8, 12, 18, 27 ...)
            pth = self.pick_of_kind('list')
            if not pth:
                return
            sid, steps = pth
            n = rng.choice([3, 5, 9, 14])
            for _ in range(n):
                lp = self.ptr_at(sid, steps)
                cur = self.model_at(sid, steps)
                i = rng.randint(0, len(cur[1]))
                ev = ('char', 'g%d' % rng.randint(0, 999), True)
                evp = L.make_value(ev)
                rc = L.call('cif_value_insert_element_at', lp, i, evp)
                L.value_free(evp)
                rcs, new = M.op_list_insert(cur, i, ev)
                self.expect('insert_element_at', rc, rcs)
                self.update(sid, steps, new)
            self.ctx.maxi('max_list_len', len(self.model_at(sid, steps)[1]))
            touched_v.add(sid)
        elif op == 'free':
            if len(self.vals) <= 1:
                return
            sid = rng.choice(sorted(self.vals))
            L.value_free(self.vals[sid][0])
            del self.vals[sid]
        elif op == 'clean':
            sid, steps = self.pick_value_path()
            L.call('cif_value_clean', self.ptr_at(sid, steps))
            self.update(sid, steps, M.UNK)
            touched_v.add(sid)
        elif op == 'clone_new':
            sid, steps = self.pick_value_path()
            rc, p = L.value_clone(self.ptr_at(sid, steps))
            self.expect('value_clone', rc, {CIF_OK})
            nid = self.new_id()
            self.vals[nid] = [p, self.model_at(sid, steps)]
            touched_v.update([sid, nid])
            self.ctx.count('clones')
        elif op == 'clone_into':
            a = self.pick_value_path()
            b = self.pick_value_path()
            if self.related(a[0], a[1], b[0], b[1]):
                return
            src = self.ptr_at(*a)
            dst = self.ptr_at(*b)
            rc, p = L.value_clone(src, into=dst)
            self.expect('value_clone(into)', rc, {CIF_OK})
            if p != dst:
                raise Mismatch('state:clone_into:pointer-changed', 'cif_value_clone replaced the caller\'s object pointer')
            self.update(b[0], b[1], self.model_at(*a))
            touched_v.update([a[0], b[0]])
            self.ctx.count('clones')
        elif op == 'init':
            sid, steps = self.pick_value_path()
            kind = rng.choice([KIND_CHAR, KIND_NUMB, KIND_LIST, KIND_TABLE, KIND_NA, KIND_UNK])
            rc = L.call('cif_value_init', self.ptr_at(sid, steps), kind)
            self.expect('value_init', rc, {CIF_OK})
            self.update(sid, steps, M.default_of(kind))
            touched_v.add(sid)
        elif op in ('copy_char', 'init_char'):
            sid, steps = self.pick_value_path()
            text = G.rand_text(rng, rng.choice([4, 12, 40, 300]))
            p = self.ptr_at(sid, steps)
            if rng.random() < 0.06:
                # no text at all: refused, and the value keeps what it held (the model is not updated)
                rc = L.call('cif_value_copy_char' if op == 'copy_char' else 'cif_value_init_char', p, None)
                self.expect(op + '(NULL)', rc, {CIF_ARGUMENT_ERROR})
                self.ctx.count('null_text_refusals')
            else:
                if op == 'copy_char':
                    rc = L.call('cif_value_copy_char', p, U(text))
                else:
                    t = L.malloc_ustr(text)
                    rc = L.call('cif_value_init_char', p, t)
                    if rc != CIF_OK:
                        L.vp_free(t)
                self.expect(op, rc, {CIF_OK})
                self.update(sid, steps, ('char', text, True))
            touched_v.add(sid)
        elif op == 'parse_numb':
            sid, steps = self.pick_value_path()
            if rng.random() < 0.7:
                text = G.rand_number_text(rng)
            else:
                text = rng.choice(['', '.', '+', 'e5', '1e', '1.2.3', '1(', '1()', '1(2', '1(2)x', ' 1', '1 ', '--1',
                                   '1e+', '0x10', '1,5', '١٢', G.rand_text(rng, 5)])
            t = L.malloc_ustr(text)
            rc = L.call('cif_value_parse_numb', self.ptr_at(sid, steps), t)
            if G.is_number(text):
                self.expect('parse_numb(valid)', rc, {CIF_OK}, repr(text))
                self.update(sid, steps, ('numb', text, False))
            else:
                L.vp_free(t)
                self.expect('parse_numb(invalid)', rc, {CIF_INVALID_NUMBER}, repr(text))
            touched_v.add(sid)
        elif op in ('init_numb', 'autoinit'):
            sid, steps = self.pick_value_path()
            p = self.ptr_at(sid, steps)
            val = rng.choice([0.0, 1.0, -1.5, 12345.678, 1e-7, -2.5e10, 3.0e-3, 0.1])
            su = rng.choice([0.0, 0.0, 0.5, 0.012, 3.0, -1.0])
            if op == 'init_numb':
                scale = rng.choice([0, 1, 3, 6, -2, -400, 2000])
                mlz = rng.choice([0, 1, 5, -1])
                rc = L.call('cif_value_init_numb', p, val, su, scale, mlz)
                bad = su < 0 or mlz < 0 or scale > 1074 or scale < -308
            else:
                rule = rng.choice([0, 1, 2, 9, 19, 27, 99])
                rc = L.call('cif_value_autoinit_numb', p, val, su, rule)
                bad = su < 0 or rule < 2
            if bad:
                self.expect(op + '(badargs)', rc, {CIF_ARGUMENT_ERROR})
            else:
                self.expect(op, rc, {CIF_OK})
                got = L.read_value(p)
                if got[0] != 'numb' or got[2] or not G.is_number(got[1]):
                    raise Mismatch('state:%s:not-a-number' % op, '%s produced %r' % (op, got))
                self.update(sid, steps, got)
            touched_v.add(sid)
        elif op in ('set_quoted', 'try_quoted'):
            sid, steps = self.pick_value_path()
            q = rng.choice([0, 1])
            cur = self.model_at(sid, steps)
            if cur[0] == 'char' and G.unquoted_outcome(cur[1]) == 'dontcare':
                return
            rc = L.call('cif_value_' + op, self.ptr_at(sid, steps), q)
            rcs, new = M.op_set_quoted(cur, q, op == 'try_quoted')
            self.expect('%s(%s,%d)' % (op, cur[0], q), rc, rcs, repr(cur[:2]))
            self.update(sid, steps, new)
            touched_v.add(sid)
        elif op in ('get_number', 'get_su'):
            sid, steps = self.pick_value_path()
            cur = self.model_at(sid, steps)
            p = self.ptr_at(sid, steps)
            rc, d = (L.value_number(p) if op == 'get_number' else L.value_su(p))
            rcs, new = M.op_coerce_number(cur)
            self.expect('%s(%s)' % (op, cur[0]), rc, rcs, repr(cur[:2]))
            self.update(sid, steps, new)
            touched_v.add(sid)
        elif op == 'query':
            sid, steps = self.pick_value_path()
            cur = self.model_at(sid, steps)
            p = self.ptr_at(sid, steps)
            k = L.call('cif_value_kind', p)
            if k != M.KIND_OF[cur[0]]:
                raise Mismatch('state:kind:differs', 'cif_value_kind = %d, model %s' % (k, cur[0]))
            rc, n = L.value_count(p)
            if cur[0] in ('list', 'table'):
                self.expect('element_count', rc, {CIF_OK})
                if n != len(cur[1]):
                    raise Mismatch('state:count:differs', 'count %d, model %d' % (n, len(cur[1])))
            else:
                self.expect('element_count(scalar)', rc, {CIF_ARGUMENT_ERROR})
            rc, t = L.value_text(p)
            self.expect('get_text', rc, {CIF_OK})
            want = cur[1] if cur[0] in ('char', 'numb') else None
            if t != want:
                raise Mismatch('state:text:differs', 'text %r, model %r' % (t, want))
        elif op == 'l_get':
            sid, steps = self.pick_value_path()
            cur = self.model_at(sid, steps)
            n = len(cur[1]) if cur[0] == 'list' else 2
            i = rng.choice([0, n - 1 if n else 0, n, n + 1, 1 << 40])
            rc, e = L.list_get(self.ptr_at(sid, steps), i)
            rcs = {CIF_ARGUMENT_ERROR} if cur[0] != 'list' else ({CIF_OK} if i < n else {CIF_INVALID_INDEX})
            self.expect('get_element_at(%s)' % cur[0], rc, rcs)
        elif op in ('l_set', 'l_insert'):
            pth = self.pick_of_kind('list') if rng.random() < 0.85 else self.pick_value_path()
            if not pth:
                return
            sid, steps = pth
            cur = self.model_at(sid, steps)
            n = len(cur[1]) if cur[0] == 'list' else 1
            i = rng.choice([0, n // 2, max(n - 1, 0), n, n, n + 1])
            src = self.pick_source()
            if src[0] == 'path' and self.related(sid, steps, src[1], src[2]):
                return
            lp = self.ptr_at(sid, steps)
            sp, sm = self.source_ptr_model(src)
            if op == 'l_set':
                # a reference to the member obtained beforehand stays the member: the replacement is made in place and
                # "will be visible to code that holds a reference"
                held = L.list_get(lp, i)[1] if (cur[0] == 'list' and 0 <= i < n) else None
                rc = L.call('cif_value_set_element_at', lp, i, sp)
                rcs, new = M.op_list_set(cur, i, sm)
                if held and rc == CIF_OK:
                    now = L.list_get(lp, i)[1]
                    if now != held:
                        raise Mismatch('state:l_set:member-object-replaced', 'cif_value_set_element_at put a different object into the slot: the reference obtained before the call no longer denotes the member')
                    self.ctx.count('references_held_across_a_set')
            else:
                rc = L.call('cif_value_insert_element_at', lp, i, sp)
                rcs, new = M.op_list_insert(cur, i, sm)
            self.expect('%s(%s)' % (op, cur[0]), rc, rcs)
            self.update(sid, steps, new)
            touched_v.add(sid)
            if src[0] == 'path':
                touched_v.add(src[1])
        elif op == 'l_remove':
            pth = self.pick_of_kind('list') if rng.random() < 0.85 else self.pick_value_path()
            if not pth:
                return
            sid, steps = pth
            cur = self.model_at(sid, steps)
            n = len(cur[1]) if cur[0] == 'list' else 1
            i = rng.choice([0, n // 2, max(n - 1, 0), n])
            want = rng.random() < 0.5
            rc, e = L.list_remove(self.ptr_at(sid, steps), i, want)
            rcs, new, removed = M.op_list_remove(cur, i)
            self.expect('remove_element_at(%s)' % cur[0], rc, rcs)
            self.update(sid, steps, new)
            touched_v.add(sid)
            if rc == CIF_OK and want:
                nid = self.new_id()
                self.vals[nid] = [e, removed]       # ownership passed to the caller
                touched_v.add(nid)
                self.ctx.count('removed_owned')
        elif op in ('t_set', 't_get', 't_remove', 't_keys'):
            pth = self.pick_of_kind('table') if rng.random() < 0.85 else self.pick_value_path()
            if not pth:
                return
            sid, steps = pth
            cur = self.model_at(sid, steps)
            key = rng.choice(KEY_POOL) if rng.random() < 0.9 else rng.choice(BAD_KEYS)
            tp = self.ptr_at(sid, steps)
            if op == 't_keys':
                rc, keys = L.table_keys(tp)
                if cur[0] != 'table':
                    self.expect('get_keys(%s)' % cur[0], rc, {CIF_ARGUMENT_ERROR})
                else:
                    self.expect('get_keys', rc, {CIF_OK})
                    if sorted(keys) != sorted(k for k, _ in cur[1]):
                        raise Mismatch('state:get_keys:spelling', 'keys %r, model %r' % (sorted(keys), sorted(k for k, _ in cur[1])))
            elif op == 't_set':
                src = self.pick_source()
                if src[0] == 'path' and self.related(sid, steps, src[1], src[2]):
                    return
                sp, sm = self.source_ptr_model(src)
                rch, held = L.table_get(tp, key) if cur[0] == 'table' else (None, None)
                rc = L.call('cif_value_set_item_by_key', tp, U(key), sp)
                rcs, new = M.op_table_set(cur, key, sm)
                self.expect('set_item_by_key(%s)' % cur[0], rc, rcs, repr(key))
                if rch == CIF_OK and held and rc == CIF_OK:
                    # an existing entry is overwritten in place (documented like the list case)
                    if L.table_get(tp, key)[1] != held:
                        raise Mismatch('state:t_set:member-object-replaced', 'cif_value_set_item_by_key put a different object under an existing key: the reference obtained before the call no longer denotes the entry')
                    self.ctx.count('references_held_across_a_set')
                self.update(sid, steps, new)
                if src[0] == 'path':
                    touched_v.add(src[1])
            elif op == 't_get':
                rc, e = L.table_get(tp, key, want=rng.random() < 0.8)
                rcs, me = M.op_table_get(cur, key)
                self.expect('get_item_by_key(%s)' % cur[0], rc, rcs, repr(key))
            else:
                want = rng.random() < 0.5
                rc, e = L.table_remove(tp, key, want)
                rcs, new, removed = M.op_table_remove(cur, key)
                self.expect('remove_item_by_key(%s)' % cur[0], rc, rcs, repr(key))
                self.update(sid, steps, new)
                if rc == CIF_OK and want:
                    nid = self.new_id()
                    self.vals[nid] = [e, removed]
                    touched_v.add(nid)
                    self.ctx.count('removed_owned')
            touched_v.add(sid)
        elif op == 'alias_set':
            # the documented aliasing case: a member passed back into its own container
            pth = self.pick_value_path()
            sid, steps = pth
            cur = self.model_at(sid, steps)
            if cur[0] == 'list' and cur[1]:
                i = rng.randrange(len(cur[1]))
                lp = self.ptr_at(sid, steps)
                rc, e = L.list_get(lp, i)
                rc = L.call('cif_value_set_element_at', lp, i, e)
                self.expect('set_element_at(alias)', rc, {CIF_OK})
                self.ctx.count('alias_cases')
            elif cur[0] == 'table' and cur[1]:
                k, _ = rng.choice(cur[1])
                tp = self.ptr_at(sid, steps)
                rc, e = L.table_get(tp, k)
                # same object, possibly under an equivalent spelling of the key
                k2 = rng.choice([k, N.nfc(k), k])
                rc = L.call('cif_value_set_item_by_key', tp, U(k2), e)
                self.expect('set_item_by_key(alias)', rc, {CIF_OK})
                rcs, new = M.op_table_set(cur, k2, M.table_lookup(cur, k)[1])
                self.update(sid, steps, new)
                self.ctx.count('alias_cases')
            touched_v.add(sid)
        elif op == 'self_insert':
            pth = self.pick_value_path()
            sid, steps = pth
            cur = self.model_at(sid, steps)
            if G.value_size(self.vals[sid][1]) > 400:
                return
            p = self.ptr_at(sid, steps)
            if cur[0] == 'list':
                i = rng.randint(0, len(cur[1]))
                rc = L.call('cif_value_insert_element_at', p, i, p)
                rcs, new = M.op_list_insert(cur, i, cur)
                self.expect('insert_element_at(self)', rc, rcs)
                self.update(sid, steps, new)
                self.ctx.count('alias_cases')
            elif cur[0] == 'table':
                key = 'self%d' % rng.randint(0, 99)
                if M.table_lookup(cur, key)[0] is not None:
                    return
                rc = L.call('cif_value_set_item_by_key', p, U(key), p)
                rcs, new = M.op_table_set(cur, key, cur)
                self.expect('set_item_by_key(self)', rc, rcs)
                self.update(sid, steps, new)
                self.ctx.count('alias_cases')
            touched_v.add(sid)
        elif op == 'p_create':
            r = rng.random()
            if r < 0.1:
                names = None
            else:
                k = rng.choice([0, 1, 2, 4])
                stems = rng.sample(range(6), k)
                names = [rng.choice(N.item_names()[s][1]) for s in stems]
                if r > 0.9:
                    names.insert(rng.randint(0, len(names)), rng.choice(N.INVALID_NAMES[:12]))
            rc, p = L.packet_create(names)
            if names and any(not M.name_valid(n) for n in names):
                self.expect('packet_create(invalid)', rc, {CIF_INVALID_ITEMNAME})
                return
            self.expect('packet_create', rc, {CIF_OK})
            pid = self.new_id()
            self.pkts[pid] = [p, ('packet', tuple((n, M.UNK) for n in (names or [])))]
            touched_p.add(pid)
        elif op in ('p_set', 'p_get', 'p_remove', 'p_free', 'p_alias'):
            if not self.pkts:
                return
            pid = rng.choice(sorted(self.pkts))
            ptr, model = self.pkts[pid]
            name = rng.choice(NAME_POOL) if rng.random() < 0.9 else rng.choice(N.INVALID_NAMES[:12])
            if op == 'p_free':
                L.packet_free(ptr)
                del self.pkts[pid]
                return
            if op == 'p_set':
                src = self.pick_source()
                sp, sm = self.source_ptr_model(src)
                rc = L.packet_set(ptr, name, sp)
                rcs, new = M.op_packet_set(model, name, sm)
                self.expect('packet_set_item', rc, rcs, repr(name))
                self.pkts[pid][1] = new
                if src[0] == 'path':
                    touched_v.add(src[1])
            elif op == 'p_alias':
                if not model[1]:
                    return
                n0, v0 = rng.choice(model[1])
                rc, e = L.packet_get(ptr, n0)
                self.expect('packet_get_item', rc, {CIF_OK})
                rc = L.packet_set(ptr, n0, e)
                self.expect('packet_set_item(alias)', rc, {CIF_OK})
                self.ctx.count('alias_cases')
            elif op == 'p_get':
                rc, e = L.packet_get(ptr, name, want=rng.random() < 0.8)
                rcs, me = M.op_packet_get(model, name)
                self.expect('packet_get_item', rc, rcs, repr(name))
                if rc == CIF_OK and e and rng.random() < 0.3:
                    # members are exposed by reference: modify through the reference
                    rc2 = L.call('cif_value_copy_char', e, U('via-ref'))
                    self.expect('copy_char(member)', rc2, {CIF_OK})
                    i, _ = M.packet_lookup(model, name)
                    ents = list(model[1])
                    ents[i] = (ents[i][0], ('char', 'via-ref', True))
                    self.pkts[pid][1] = ('packet', tuple(ents))
            else:
                want = rng.random() < 0.5
                rc, e = L.packet_remove(ptr, name, want)
                rcs, new, removed = M.op_packet_remove(model, name)
                self.expect('packet_remove_item', rc, rcs, repr(name))
                self.pkts[pid][1] = new
                if rc == CIF_OK and want:
                    nid = self.new_id()
                    self.vals[nid] = [e, removed]
                    touched_v.add(nid)
                    self.ctx.count('removed_owned')
            touched_p.add(pid)
        self.verify(touched_v, touched_p, op)

    def release(self):
        L = self.L
        for sid in list(self.vals):
            L.value_free(self.vals[sid][0])
            del self.vals[sid]
        for pid in list(self.pkts):
            L.packet_free(self.pkts[pid][0])
            del self.pkts[pid]


def run_case(ctx, i):
    L = ctx.L
    rng = ctx.rng('C19', i)
    nsteps = rng.choice([40, 60, 100, 150])
    scope = LedgerScope(L).__enter__()
    s = Session(L, rng, ctx)
    case = dict(index=i, steps=nsteps)
    try:
        for k in range(nsteps):
            s.step()
            if k % 10 == 9:
                s.verify(op='periodic')
        s.verify(op='final')
        ctx.count('histories_completed')
    except Mismatch as m:
        case['ops'] = s.log[-12:]
        ctx.violation(m.key, m.detail, case)
    finally:
        try:
            s.release()
        except Exception:
            pass
    for suffix, detail in scope.finish():
        case['ops'] = s.log[-12:]
        ctx.violation(suffix, detail, case)
    ctx.drain_events(case)
    ctx.add('shape', '%d-%d' % (len(set(s.log)), nsteps))
    ctx.sample(dict(index=i, steps=nsteps, first_ops=s.log[:15]), 3)


def run_big_map(ctx, i, j):
    """A table and a packet grown to hundreds of entries (their hash tables double several times on the way): after
    every doubling-sized step every key entered so far is found, enumerated once, replaceable without changing the
    count and removable; a clone answers the same."""
    L = ctx.L
    rng = ctx.rng('C19-big', i)
    n = (160, 200, 330, 400, 700, 1300)[j % 6]
    case = dict(index=i, kind='big-map', entries=n)
    scope = LedgerScope(L).__enter__()
    stem = rng.choice(['k', 'Key_', '\u00e9l\u00e9ment', 'x' * 20, '\U00010400_'])
    v1 = L.make_value(('char', 'first', True))
    v2 = L.make_value(('numb', '2.5(1)', False))
    objs = []
    try:
        for kind in ('table', 'packet'):
            keys = [('%s%d' % (stem, k)) if kind == 'table' else ('_%s%d' % (stem, k)) for k in range(n)]
            if kind == 'table':
                m = L.value_create(KIND_TABLE)[1]
                objs.append(('value', m))
                put = lambda k, v: L.call('cif_value_set_item_by_key', m, U(k), v)
                get = lambda k: L.table_get(m, k)
                names = lambda: L.table_keys(m)[1]
                rem = lambda k: L.call('cif_value_remove_item_by_key', m, U(k), None)
            else:
                m = L.packet_create([])[1]
                objs.append(('packet', m))
                put = lambda k, v: L.call('cif_packet_set_item', m, U(k), v)
                get = lambda k: L.packet_get(m, k)
                names = lambda: L.packet_names(m)[1]
                rem = lambda k: L.call('cif_packet_remove_item', m, U(k), None)
            norm = (lambda k: k) if kind == 'table' else N.norm
            marks = set([1, 2, n] + [x for x in (31, 32, 33, 63, 64, 65, 100, 130, 159, 160, 161, 256, 320, 321, 512, 640, 641, 1024, 1280, 1281) if x <= n])
            for c, k in enumerate(keys, 1):
                rc = put(k, v1)
                if rc != CIF_OK:
                    raise Mismatch('bigmap:%s:set:%d' % (kind, rc), 'entry %d of %d: set -> %d' % (c, n, rc))
                if c in marks:
                    lost = [kk for kk in keys[:c] if get(kk)[0] != CIF_OK]
                    if lost:
                        raise Mismatch('bigmap:%s:lookup-missed' % kind, 'with %d entries, %d key(s) that were entered are not found, first %r' % (c, len(lost), lost[0]))
                    got = sorted(norm(x) for x in names())
                    if got != sorted(norm(kk) for kk in keys[:c]):
                        raise Mismatch('bigmap:%s:enumeration' % kind, 'with %d entries the keys enumerate as %d names (%d distinct)' % (c, len(got), len(set(got))))
            # the entry added last is removed, then an entry under a new key is added: it is found, enumerated (once)
            # and survives a copy like any other
            last = keys[-1]
            fresh = ('%sfresh' % stem) if kind == 'table' else ('_%sfresh' % stem)
            if rem(last) != CIF_OK or put(fresh, v1) != CIF_OK:
                raise Mismatch('bigmap:%s:remove-last-then-add' % kind, 'removing the entry added last, then adding one under a new key, failed')
            got = sorted(norm(x) for x in names())
            if got != sorted([norm(kk) for kk in keys[:-1]] + [norm(fresh)]) or get(fresh)[0] != CIF_OK:
                raise Mismatch('bigmap:%s:enumeration-after-remove-last' % kind, 'after removing the entry added last and adding %r the map enumerates %d names (%s the new one) and finds it: %s'
                               % (fresh, len(got), 'with' if norm(fresh) in got else 'WITHOUT', get(fresh)[0] == CIF_OK))
            if rem(fresh) != CIF_OK or put(last, v1) != CIF_OK:
                raise Mismatch('bigmap:%s:restore' % kind, 'restoring the map failed')
            if kind == 'table':
                rc, cl = L.value_clone(m)
                objs.append(('value', cl))
                lost = [kk for kk in keys if L.table_get(cl, kk)[0] != CIF_OK]
                if rc != CIF_OK or lost or len(L.table_keys(cl)[1]) != n:
                    raise Mismatch('bigmap:table:clone', 'clone of a %d-entry table: rc %d, %d keys not found, %d enumerated' % (n, rc, len(lost), len(L.table_keys(cl)[1])))
            for k in keys:
                if put(k, v2) != CIF_OK:
                    raise Mismatch('bigmap:%s:replace' % kind, 'replacing %r failed' % k)
            if len(names()) != n:
                raise Mismatch('bigmap:%s:count-after-replace' % kind, 'after replacing each of the %d entries the map enumerates %d' % (n, len(names())))
            for k in keys[::2]:
                rc = rem(k)
                if rc != CIF_OK:
                    raise Mismatch('bigmap:%s:remove:%d' % (kind, rc), 'removing %r -> %d' % (k, rc))
            left = sorted(norm(x) for x in names())
            if left != sorted(norm(kk) for kk in keys[1::2]):
                raise Mismatch('bigmap:%s:after-remove' % kind, 'after removing every other entry %d remain, expected %d' % (len(left), len(keys[1::2])))
            ctx.count('big_map_entries', n)
        ctx.count('big_maps_completed')
    except Mismatch as mm:
        ctx.violation(mm.key, mm.detail, case)
    finally:
        for kind, h in objs:
            (L.value_free if kind == 'value' else L.packet_free)(h)
        L.value_free(v1)
        L.value_free(v2)
    for suffix, detail in scope.finish():
        ctx.violation(suffix, detail, case)
    ctx.drain_events(case)


def worker(ctx):
    total = ctx.params['histories']
    nbig = ctx.params.get('big_maps', 0)
    if ctx.params.get('_single') is not None:
        ctx.single = ctx.params['_single']
    for i in ctx.cases(total + nbig):
        ctx.begin(i)
        if i >= total:
            ctx.count('big_maps')
            run_big_map(ctx, i, i - total)
            continue
        ctx.count('histories')
        run_case(ctx, i)


def run(env):
    n = 6000 if env.quick else 150000
    res = env.run_pool(MODULE, dict(histories=n, big_maps=24 if env.quick else 240), nshards=16)
    inconclusive = list(res.inconclusive)
    if res.count('histories') < n and not res.violations:
        inconclusive.append('only %d of %d histories ran' % (res.count('histories'), n))
    return dict(
        level='exploration',
        coverage=dict(
            evaluations=res.count('histories'),
            distinct_nontrivial=res.count('histories_completed') if res.count('histories_completed') > 1 else len(res.sets.get('op_rc', ())),
            rule='one evaluation = one random history of 40-150 value/list/table/packet operations checked step by '
                 'step against the functional model; histories are distinct by construction (per-index PRNG); '
                 'counted as non-trivial when the history ran to its end with every step compared',
            samples=res.samples, steps=res.count('steps'), clones=res.count('clones'),
            maps_grown_to_hundreds_of_entries=res.count('big_maps_completed'), entries_in_those=res.count('big_map_entries'),
            alias_cases=res.count('alias_cases'), removed_members_owned_by_caller=res.count('removed_owned'),
            distinct_operation_result_pairs=sorted(res.sets.get('op_rc', ())),
            max_list_length=res.count('max_list_len'), crashes=res.crashes),
        violations=res.violations, inconclusive=inconclusive,
        assumptions=['name / key equivalence of the fixed pools is computed with Python unicodedata (stable for '
                     'these long-assigned characters)', 'ICU and SQLite are trusted'])


def replay(env, rec):
    env.single = (rec.get('case') or {}).get('index')
    return run(env)
