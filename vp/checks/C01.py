"""C01 - a well-formed CIF parses to exactly the content it denotes.

Documents are written by the independent writer (vp/gen_cif.py) from an abstract content; the parse (default
options, recording error callback) must report nothing, return CIF_OK, and the dump of the resulting CIF must equal
the abstract content under the documented reading rules.  Quick tier: enumerated families (ordered pairs of value
presentations x contexts x separators; every ASCII character at every lexical position; text-field protocol
variants) plus random documents, one in five in CIF 1.1."""
import random

from .. import dump as D
from .. import gen_cif as GC
from .. import gen_values as G
from .. import parsing
from ..lib import *      # noqa: F401,F403
from ..monitors import LedgerScope

MODULE = __name__

SQ, DQ = ('q', "'"), ('q', '"')
TSQ, TDQ = ('t', "'"), ('t', '"')
TXT, TXF, TXP, TXFP = ('text', False, False), ('text', True, False), ('text', False, True), ('text', True, True)

# (label, value, forced presentation or None)
PRESENTATIONS = [
    ('unq', ('char', 'abc', False), None), ('num', ('numb', '-1.5e3(2)', False), None),
    ('sq', ('char', 'a "b" #c', True), SQ), ('dq', ('char', "it's ;x", True), DQ),
    ('tsq', ('char', 'x"\n"y', True), TSQ), ('tdq', ('char', "l1'\n'l2", True), TDQ),
    ('text', ('char', 'line1\nline 2 ', True), TXT), ('text+fold', ('char', 'folded line that is long\nsecond', True), TXF),
    ('text+prefix', ('char', 'a\n;b\n;', True), TXP), ('text+fold+prefix', ('char', 'data_x\n;\\\n\\', True), TXFP),
    ('list', ('list', (('char', 'e1', False), ('char', 'e 2', True))), None),
    ('table', ('table', (('k', ('char', 'v', False)),)), None),
    ('unk', ('unk',), None), ('na', ('na',), None), ('empty', ('char', '', True), SQ),
    ('qmark', ('char', '?', True), DQ),
]
CONTEXTS = ['scalar', 'loop', 'list', 'table']
SEPARATORS = [' ', '\n', '\t', ' # comment\n', '\n\n  ', ' \t ']

PROTOCOL_TEXTS = [
    'a\n\nb', 'trailing blanks   \nnext', 'ends with backslash\\\nnext', 'ends with backslash and blanks\\  \nnext',
    'x;y\n z', 'semi ;\n x', '\\', '\\\\', 'a\\', 'pre\\fix', '> \\', 'one line', '\n', '\nleading newline',
    'trailing newline\n', '  indented', 'é\U0001f600\n\U0010fffd end', 'tab\tin\tline', "''' and \"\"\" both\n;not a terminator? no",
    ';starts with semicolon', 'a\n;embedded terminator look-alike', 'x' * 2047, 'y' * 2048, 'z' * 2049, ('w' * 3000) + '\nshort',
    'fold \\\nmarker look-alike', 'long ' * 500, ';' * 10, 'a' + ';' * 3000,
]


def family_docs():
    """deterministic list of (label, doc, forced list, fixed separator, version)"""
    out = []
    for la, va, fa in PRESENTATIONS:
        for lb, vb, fb in PRESENTATIONS:
            for ctxname in CONTEXTS:
                if ctxname == 'scalar':
                    entries = [('item', '_a', va), ('item', '_b', vb)]
                elif ctxname == 'loop':
                    entries = [('loop', ['_a', '_b'], [[va, vb], [vb, va]])]
                elif ctxname == 'list':
                    entries = [('item', '_a', ('list', (va, vb)))]
                else:
                    entries = [('item', '_a', ('table', (('k1', va), ('k 2', vb))))]
                forced = [f for f in (fa, fb) if f is not None]
                if ctxname == 'loop':
                    forced = forced + [f for f in (fb, fa) if f is not None]
                # nested strings inside list / table presentations are not forced (small, any form)
                k = (len(out)) % len(SEPARATORS)
                out.append(('pair:%s|%s:%s' % (la, lb, ctxname), [{'code': 'p', 'entries': entries}],
                            None if (la in ('list', 'table') or lb in ('list', 'table')) else forced,
                            SEPARATORS[k], 2))
    # every ASCII character at every lexical position
    for o in range(0x20, 0x7f):
        c = chr(o)
        cases = []
        for text in (c + 'x', 'x' + c, 'x' + c + 'y', c):
            v = ('char', text, False) if GC.unquoted_ok(text, 2) else ('char', text, True)
            cases.append(('item', '_v%d' % len(cases), v))
        for f in (SQ, DQ, TSQ, TDQ, TXT):
            text = 'a' + c + 'b'
            if f in GC.char_forms(text, 2):
                cases.append(('item', '_q%d' % len(cases), ('char', text, True)))
        if c not in ' ':
            cases.append(('item', '_n' + c + 'm', ('char', 'named', False)))
            cases.append(('item', '_k', ('table', (('k' + c, ('char', c + 'v' if GC.unquoted_ok(c + 'v', 2) else 'v', False)),))))
        code = 'c' + c + 'd' if c != ' ' else 'cd'
        out.append(('ascii:%02x' % o, [{'code': code, 'entries': cases}], None, None, 2))
        # CIF 1.1 lexical rules for the same character
        cases1 = []
        for text in (c + 'x', 'x' + c, 'x' + c + 'y'):
            if GC.unquoted_ok(text, 1):
                cases1.append(('item', '_v%d' % len(cases1), ('char', text, False)))
            for q in "'\"":
                if GC.quoted_ok(text, q, 1):
                    cases1.append(('item', '_q%d' % len(cases1), ('char', text, True)))
                    break
        if cases1:
            out.append(('ascii1:%02x' % o, [{'code': 'c1', 'entries': cases1}], None, None, 1))
    # whitespace-delimited values that begin like a reserved word (only the complete words are reserved)
    words = ['global_minimum', 'Global_b', 'GLOBAL_x', 'globally', 'global', 'loop_x', 'LOOP_2', 'loops', 'loop', 'stop_sign',
             'Stop_1', 'stopper', 'stop', 'data', 'DATA', 'save', 'saver_', 'datum_1']
    for k, wd in enumerate(words):
        v = ('char', wd, False)
        w2 = ('char', words[(k + 5) % len(words)], False)
        out.append(('keywordlike:%s' % wd, [{'code': 'kw', 'entries': [
            ('item', '_s', v), ('loop', ['_l1', '_l2'], [[v, w2], [w2, v]]), ('item', '_li', ('list', (w2, v, ('char', 'z', False)))),
            ('item', '_tb', ('table', (('k', v),))), ('item', '_last', v)]}], None, None, 2))
        out.append(('keywordlike1:%s' % wd, [{'code': 'kw', 'entries': [
            ('item', '_s', v), ('loop', ['_l1', '_l2'], [[v, w2], [w2, v]]), ('item', '_last', v)]}], None, None, 1))
    # text-field protocol family
    for t in PROTOCOL_TEXTS:
        if not GC.text_ok(t, 2):
            continue
        for f in (TXT, TXF, TXP, TXFP):
            if f in GC.char_forms(t, 2):
                for ctxname in ('scalar', 'list'):
                    v = ('char', t, True)
                    entries = [('item', '_t', v if ctxname == 'scalar' else ('list', (v, ('char', 'after', False))))]
                    out.append(('protocol:%s:%s' % (f[1:], ctxname), [{'code': 't', 'entries': entries}], [f], None, 2))
    return out


def deep_doc(pad):
    """Tokens of every kind deep inside a large document: comment filler up to about 3000 characters before the
    offsets at which the scan buffer has filled up for the first and the second time (128 Ki, 256 Ki), then short
    items in every presentation for 9000 characters; `pad` comment characters in front slide every token boundary
    across those offsets.  The amount of comment is the only thing that varies: the content denoted does not."""
    out = ['#\\#CIF_2.0\ndata_deep\n']
    n = len(out[0]) + 2
    left = pad
    while True:
        m = min(left, 1500)
        out.append('#' + 'p' * m + '\n')
        left -= m
        if left <= 0:
            break
    entries = []
    k = 0
    for target in (131072, 262144):
        while n < target - 3000:
            m = min(1000, target - 3000 - n)
            line = '#' + 'f' * max(m - 2, 0) + '\n'
            out.append(line)
            n += len(line)
        while n < target + 6000:
            u = ("_a%04d\n;text %04d\nsecond line\n;\n_b%04d \"\"\"tq %04d\nmore\"\"\" _c%04d 'q %04d' _d%04d [x%04d {'k':v%04d}] _e%04d e%04d\n"
                 % (k, k, k, k, k, k, k, k, k, k, k))
            out.append(u)
            n += len(u)
            entries += [('item', '_a%04d' % k, ('char', 'text %04d\nsecond line' % k, True)),
                        ('item', '_b%04d' % k, ('char', 'tq %04d\nmore' % k, True)),
                        ('item', '_c%04d' % k, ('char', 'q %04d' % k, True)),
                        ('item', '_d%04d' % k, ('list', (('char', 'x%04d' % k, False), ('table', (('k', ('char', 'v%04d' % k, False)),))))),
                        ('item', '_e%04d' % k, ('char', 'e%04d' % k, False))]
            k += 1
    out.append('_last_item done\n')
    entries.append(('item', '_last_item', ('char', 'done', False)))
    return ''.join(out), [{'code': 'deep', 'entries': entries}]


def eof_doc(pad):
    """A document of about 165 kB whose bulk is comment lines mixing one- and two-byte characters (so that the number of
    characters a 4096-byte read yields drifts against the scan buffer's free space), with one item at the very start
    and one at the very end; `pad` more comment characters move the end of the input across the read boundaries."""
    out = ['#\\#CIF_2.0\ndata_big\n_first 1\n']
    for k in range(1902):       # about 127 500 characters: the padding then sweeps the total across the scan buffer size
        out.append('# %04d ' % k + '\u00e9\u00e8' * 18 + ' plain ascii filler ' + '\u00f8' * (k % 7) + '\n')
    left = pad
    while left > 0:
        m = min(left, 1500)
        out.append('#' + 'p' * m + '\n')
        left -= m
    out.append("_last 'the end'")
    return ''.join(out), [{'code': 'big', 'entries': [('item', '_first', ('char', '1', False)), ('item', '_last', ('char', 'the end', True))]}]


def check_document(ctx, L, label, doc, text, version, info, opts=None):
    data = text.encode('utf-8')
    res = parsing.parse(L, data, opts or parsing.make_opts(), 'new', 'accept')
    try:
        for k, d in res.problems:
            ctx.violation(k, d, info)
        if res.errors:
            code, line, col, ln = res.errors[0]
            ctx.violation('parse:error-on-wellformed:%d:%s' % (code, label.split(':')[0]),
                          'well-formed document (%s) reported error %d at line %d col %d (and %d more); document:\n%s'
                          % (label, code, line, col, len(res.errors) - 1, text[:1500]), info)
            return False
        if res.rc != CIF_OK:
            ctx.violation('parse:rc:%d:%s' % (res.rc, label.split(':')[0]), 'cif_parse -> %d on a well-formed document (%s)\n%s' % (res.rc, label, text[:1500]), info)
            return False
        got = D.dump(L, res.cif)
        want = GC.expected_dump(doc, version)
        if got != want:
            ctx.violation('parse:content:%s' % label.split(':')[0],
                          'parsed content differs from what the document denotes (%s): %s\ndocument:\n%s'
                          % (label, D.first_difference(got, want), text[:1500]), info)
            return False
        return True
    finally:
        if res.cif:
            L.destroy(res.cif)


def worker(ctx):
    L = ctx.L
    fam = family_docs()
    nfam = len(fam)
    nrand = ctx.params['random_docs']
    ndeep = ctx.params['deep_docs']
    total = nfam + nrand + ndeep
    if ctx.params.get('_single') is not None:
        ctx.single = ctx.params['_single']
    scope = LedgerScope(L).__enter__()
    big = ctx.tier != 'quick'
    for i in ctx.cases(total):
        ctx.begin(i)
        ctx.count('documents')
        rng = ctx.rng('C01', i)
        if i < nfam:
            label, doc, forced, sep, version = fam[i]
            w = GC.Writer(rng, version, magic=True, comments=True)
            if forced is not None:
                w.forced = list(forced)
            w.fixed_sep = sep
            text = w.document(doc)
        elif i >= nfam + nrand:
            j = i - nfam - nrand
            pad = j if j < 128 else (j - 128) * 37 % 4096
            version = 2
            label = 'deep:%s' % ('lf', 'crlf', 'cr')[j % 3]
            if j % 2:
                text, doc = eof_doc((j * 53) % 4096)
                label = 'eof:%s' % ('lf', 'crlf', 'cr')[j % 3]
            else:
                text, doc = deep_doc(pad)
            if j % 3:
                from .C08 import restyle
                text = restyle(text, ('lf', 'crlf', 'cr')[j % 3], rng)
            w = GC.Writer(rng, 2)
            ctx.count('deep_documents')
        else:
            version = 1 if (i % 5 == 0) else 2
            label = 'random:v%d' % version
            doc = GC.rand_doc(rng, version, max_blocks=6 if big else 3)
            w = GC.Writer(rng, version, magic=(version == 2 or rng.random() < 0.6), dense=rng.random() < 0.3,
                          bom=(version == 2 and rng.random() < (0.5 if i % 6 == 2 else 0.1)))
            if i % 3 == 0:
                w.wide = 0.08
            text = w.document(doc)
            if i % 6 == 2:
                # inline blanks after the version comment, up to the line-length limit (with and without signature)
                sig = 1 if text.startswith('\ufeff') else 0
                head = text[sig:sig + 11]
                if head in ('#\\#CIF_2.0\n', '#\\#CIF_1.1\n'):
                    n = rng.choice([rng.randint(1, 12), rng.randint(2020, 2038 - sig), 2038 - sig, 2037 - sig, 2030 - sig])
                    blanks = ''.join(rng.choice(' \t') for _ in range(n)) if rng.random() < 0.5 else ' ' * n
                    text = text[:sig + 10] + blanks + text[sig + 10:]
                    ctx.count('padded_version_comments')
                    label += ':magic-pad'
            if i % 4 == 1:
                # line terminators inside and between values read as a single newline whatever their style
                from .C08 import restyle
                text = restyle(text, ('crlf', 'cr', 'mix')[(i // 4) % 3], rng)
                label += ':' + ('crlf', 'cr', 'mix')[(i // 4) % 3]
        info = dict(index=i, label=label, version=version)
        ok = check_document(ctx, L, label, doc, text, version, info)
        if ok:
            ctx.count('documents_ok')
            ctx.add('labels', label.split(':')[0] + ':' + (label.split(':')[1] if i < nfam and label.startswith('pair') else ''))
            for k, n in w.presentations.items():
                ctx.count('presentation:' + k, n)
        ctx.drain_events(info)
        if i % 300 == 0:
            for suffix, detail in scope.finish():
                ctx.violation(suffix, detail, info)
            scope = LedgerScope(L).__enter__()
        if i % 997 == 0:
            ctx.sample(dict(index=i, label=label, text=text[:300]), 4)
    for suffix, detail in scope.finish():
        ctx.violation(suffix, detail, dict(index=-1))


def run(env):
    nrand = 8000 if env.quick else 150000
    nfam = len(family_docs())
    ndeep = 384 if env.quick else 3072
    res = env.run_pool(MODULE, dict(random_docs=nrand, deep_docs=ndeep), nshards=16)
    total = nfam + nrand + ndeep
    inconclusive = list(res.inconclusive)
    if res.count('documents') < total and not res.violations:
        inconclusive.append('only %d of %d documents ran' % (res.count('documents'), total))
    pres = {k.split(':', 1)[1]: v for k, v in res.counters.items() if k.startswith('presentation:')}
    return dict(
        level='exploration',
        coverage=dict(
            evaluations=res.count('documents'), distinct_nontrivial=res.count('documents_ok'),
            rule='one evaluation = one generated well-formed document (enumerated family member or random; documents '
                 'are distinct by construction: family index or per-index PRNG) parsed with default options; '
                 'non-trivial = parsed without any error report, returned CIF_OK and its dump equalled the abstract '
                 'content it was written from',
            samples=res.samples, enumerated_family_documents=nfam, random_documents=nrand,
            large_documents_with_tokens_at_scan_buffer_compaction_points=res.count('deep_documents'),
            documents_with_blank_padded_version_comment=res.count('padded_version_comments'),
            presentations_written=pres, family_labels=len(res.sets.get('labels', ())), crashes=res.crashes),
        violations=res.violations, inconclusive=inconclusive,
        assumptions=['the independent writer (vp/gen_cif.py) implements the CIF 2.0 / 1.1 grammars correctly',
                     'data-name / code normalisation of the generated names uses Python unicodedata on '
                     'long-assigned characters'])


def replay(env, rec):
    env.single = (rec.get('case') or {}).get('index')
    return run(env)
