"""C12 - each class of input defect is reported with its code and recovered as documented.

A fixed, line-oriented host document (two blocks, scalars, a loop, a list, a table, a save frame with a text field) is
combined with one planted defect of a documented class at each admissible position.  The oracle is a table written
from the error-recovery documentation: the first code the error callback must receive, the line interval it must lie
in (not before the defect, not after the following token), and the content the recovery action prescribes - expressed
as an edit of the host's abstract content, so everything outside the defective construct is compared strictly.
Later, cascaded errors are allowed.  Controls without defect must trigger no callback at all."""
import copy

from .. import dump as D
from .. import gen_cif as GC
from .. import parsing
from ..lib import *      # noqa: F401,F403
from ..monitors import LedgerScope

MODULE = __name__


def u(t):
    return ('char', t, False)


def q(t):
    return ('char', t, True)


UNK = ('unk',)

HOST_LINES = [
    '#\\#CIF_2.0',              # 1
    'data_h1',                  # 2
    '_i1 v1',                   # 3
    "_i2 'v 2'",                # 4
    'loop_',                    # 5
    '_l1',                      # 6
    '_l2',                      # 7
    '_l3',                      # 8
    'a b c',                    # 9
    'd e f',                    # 10
    "_t {'k':v 'k2':[x y]}",    # 11
    "_ls [a b 'c d']",          # 12
    'save_f1',                  # 13
    '_f1 1',                    # 14
    '_f2',                      # 15
    ';line1',                   # 16
    'line2',                    # 17
    ';',                        # 18
    'save_',                    # 19
    '_i3 last',                 # 20
    'data_h2',                  # 21
    '_j1 5',                    # 22
]


def host_content():
    return [
        {'code': 'h1', 'entries': [
            ('item', '_i1', u('v1')), ('item', '_i2', q('v 2')),
            ('loop', ['_l1', '_l2', '_l3'], [[u('a'), u('b'), u('c')], [u('d'), u('e'), u('f')]]),
            ('item', '_t', ('table', (('k', u('v')), ('k2', ('list', (u('x'), u('y'))))))),
            ('item', '_ls', ('list', (u('a'), u('b'), q('c d')))),
            ('frame', {'code': 'f1', 'entries': [('item', '_f1', u('1')), ('item', '_f2', q('line1\nline2'))]}),
            ('item', '_i3', u('last'))]},
        {'code': 'h2', 'entries': [('item', '_j1', u('5'))]},
    ]


def block(content, code):
    for b in content:
        if b['code'] == code:
            return b
    raise KeyError(code)


def frame(content):
    for e in block(content, 'h1')['entries']:
        if e[0] == 'frame':
            return e[1]


def set_item(cont, name, value):
    for i, e in enumerate(cont['entries']):
        if e[0] == 'item' and e[1] == name:
            cont['entries'][i] = ('item', name, value)
            return
    cont['entries'].append(('item', name, value))


def del_item(cont, name):
    cont['entries'] = [e for e in cont['entries'] if not (e[0] == 'item' and e[1] == name)]


SYNTAX_CLASSES = ('missing-value', 'partial-packet', 'empty-loop-header', 'loop-without-values', 'unterminated-quote',
                  'unterminated-dquote', 'missing-space', 'stray-close', 'missing-list-close', 'missing-table-close',
                  'missing-key', 'null-key', 'unquoted-key', 'text-block-key', 'missing-table-value', 'reserved-word',
                  'unexpected-', 'control-')


class Case:
    def __init__(self, name, lines, code, lo, hi, content, opts=None, final_newline=True, alt_content=None, klass=None,
                 position=None, twin_lines=None):
        self.name = name
        self.twin_lines = twin_lines      # the same defect with a longer token: the whole code sequence must be the same
        self.lines = lines
        self.code = code          # first error code (None: no callback allowed)
        self.lo = lo              # 1-based line interval for the first report
        self.hi = hi
        self.content = content
        self.alt = alt_content
        self.opts = opts or {}
        self.final_newline = final_newline
        self.klass = klass or name.split('@')[0]
        self.position = position or (name.split('@')[1] if '@' in name else '')


# insertion slots between host lines: name -> (index to insert before (0-based), container selector)
SLOTS = {
    'first-in-block': (2, 'h1'), 'after-scalar': (4, 'h1'), 'after-loop': (10, 'h1'), 'before-frame': (12, 'h1'),
    'in-frame-first': (13, 'f1'), 'in-frame-last': (18, 'f1'), 'last-in-block': (20, 'h1'), 'end-of-input': (22, 'h2'),
}


def target(content, sel):
    return frame(content) if sel == 'f1' else block(content, sel)


def insertion_cases():
    cases = []
    for slot, (idx, sel) in SLOTS.items():
        # the token following the insertion lies on host line idx+1 (1-based), i.e. new line idx+2
        def mk(name, ins, code, edit=None, hi_extra=0, final_newline=True, alt=None, opts=None, twin=None):
            lines = HOST_LINES[:idx] + ins + HOST_LINES[idx:]
            c = host_content()
            if edit:
                edit(target(c, sel), c)
            lo = idx + 1
            hi = idx + len(ins) + 1 + hi_extra
            a = None
            if alt:
                a = host_content()
                alt(target(a, sel), a)
            cases.append(Case('%s@%s' % (name, slot), lines, code, lo, hi, c, final_newline=final_newline, alt_content=a, opts=opts,
                              twin_lines=(HOST_LINES[:idx] + twin + HOST_LINES[idx:]) if twin else None))
        at_end = slot == 'end-of-input'
        mk('missing-value', ['_mv'], CIF_MISSING_VALUE, lambda t, c: set_item(t, '_mv', UNK))
        if at_end:
            mk('missing-value-no-final-newline', ['_mv'], CIF_MISSING_VALUE, lambda t, c: set_item(t, '_mv', UNK), final_newline=False)
        first_name = {'h1': '_I1', 'f1': '_F1', 'h2': '_J1'}[sel]
        follows_original = slot not in ('first-in-block', 'in-frame-first')
        next_is_name = slot in ('first-in-block', 'after-scalar', 'after-loop', 'in-frame-first', 'last-in-block')
        if not follows_original:
            # nothing precedes this slot in its container: a "duplicate" planted here would be the first occurrence
            first_name = '_nodup'
        mk('dup-scalar', [first_name + ' dup'], CIF_DUP_ITEMNAME if follows_original else None,
           None if follows_original else (lambda t, c: set_item(t, '_nodup', u('dup'))))
        if sel == 'h1' and idx > 10:
            mk('dup-of-looped-name', ['_L2 dup'], CIF_DUP_ITEMNAME)
        if follows_original:
          mk('dup-in-loop-header-first', ['loop_', first_name, '_n2', '_n3', '1 2 3', '4 5 6'], CIF_DUP_ITEMNAME,
             lambda t, c: t['entries'].append(('loop', ['_n2', '_n3'], [[u('2'), u('3')], [u('5'), u('6')]])))
          mk('dup-in-loop-header-middle', ['loop_', '_n1', first_name, '_n3', '1 2 3', '4 5 6'], CIF_DUP_ITEMNAME,
             lambda t, c: t['entries'].append(('loop', ['_n1', '_n3'], [[u('1'), u('3')], [u('4'), u('6')]])))
          mk('dup-in-loop-header-last', ['loop_', '_n1', '_n2', first_name, '1 2 3', '4 5 6'], CIF_DUP_ITEMNAME,
             lambda t, c: t['entries'].append(('loop', ['_n1', '_n2'], [[u('1'), u('2')], [u('4'), u('5')]])))
        # a header all of whose names are dropped: the loop vanishes with its values, the parse goes on
        if follows_original:
            mk('dup-only-name-in-loop-header', ['loop_', first_name, '1 2 3'], CIF_DUP_ITEMNAME)
        mk('invalid-only-name-in-loop-header', ['loop_', '_', '2 3'], CIF_INVALID_ITEMNAME)
        # equivalent spellings of different lengths: composed / decomposed, and a case folding that expands
        mk('dup-within-loop-header-nfd', ['loop_', '_caf\u00e9', '_w2', '_CAFE\u0301', '1 2 3', '4 5 6'], CIF_DUP_ITEMNAME,
           lambda t, c: t['entries'].append(('loop', ['_caf\u00e9', '_w2'], [[u('1'), u('2')], [u('4'), u('5')]])))
        mk('dup-within-loop-header-expanding-fold', ['loop_', '_stra\u00dfe', '_w2', '_STRASSE', '1 2 3', '4 5 6'], CIF_DUP_ITEMNAME,
           lambda t, c: t['entries'].append(('loop', ['_stra\u00dfe', '_w2'], [[u('1'), u('2')], [u('4'), u('5')]])))
        mk('dup-scalar-nfd', ['_dn\u00e9 1', '_DNE\u0301 2'], CIF_DUP_ITEMNAME, lambda t, c: set_item(t, '_dn\u00e9', u('1')))
        mk('dup-within-loop-header', ['loop_', '_w1', '_w2', '_W1', '1 2 3', '4 5 6'], CIF_DUP_ITEMNAME,
           lambda t, c: t['entries'].append(('loop', ['_w1', '_w2'], [[u('1'), u('2')], [u('4'), u('5')]])))
        if follows_original:
            mk('dup-in-header-then-partial-packet', ['loop_', '_n1', first_name, '_n3', '1 2 3', '4'], CIF_DUP_ITEMNAME,
               lambda t, c: t['entries'].append(('loop', ['_n1', '_n3'], [[u('1'), u('3')], [u('4'), UNK]])))
            mk('dup-first-in-header-then-partial-packet', ['loop_', first_name, '_n2', '_n3', '1 2 3', '4 5'], CIF_DUP_ITEMNAME,
               lambda t, c: t['entries'].append(('loop', ['_n2', '_n3'], [[u('2'), u('3')], [u('5'), UNK]])))
        # a data name no item can bear: reported, then handled like a duplicate (the item and its values are dropped)
        mk('invalid-name-scalar', ['_ bare'], CIF_INVALID_ITEMNAME)
        mk('invalid-name-in-loop-header', ['loop_', '_n1', '_', '_n3', '1 2 3', '4 5 6'], CIF_INVALID_ITEMNAME,
           lambda t, c: t['entries'].append(('loop', ['_n1', '_n3'], [[u('1'), u('3')], [u('4'), u('6')]])))
        # a table key holding a character the data model disallows: the character is reported, then the key; the entry is dropped
        mk('disallowed-char-in-table-key', ["_dk {'a\x01b':1 'c':2}"], CIF_DISALLOWED_CHAR, lambda t, c: set_item(t, '_dk', ('table', (('c', u('2')),))))
        mk('disallowed-char-in-text-block-key', ['_dt {', ';k\x01', ";:1 'c':2}"], CIF_DISALLOWED_CHAR, lambda t, c: set_item(t, '_dt', ('table', (('c', u('2')),))))
        mk('partial-packet-1', ['loop_', '_n1', '_n2', '_n3', '1 2 3', '4 5'], CIF_PARTIAL_PACKET,
           lambda t, c: t['entries'].append(('loop', ['_n1', '_n2', '_n3'], [[u('1'), u('2'), u('3')], [u('4'), u('5'), UNK]])))
        mk('partial-packet-2', ['loop_', '_n1', '_n2', '_n3', '1'], CIF_PARTIAL_PACKET,
           lambda t, c: t['entries'].append(('loop', ['_n1', '_n2', '_n3'], [[u('1'), UNK, UNK]])))
        if not next_is_name:
            # (a loop_ keyword followed by a data name is simply a loop header, not an empty one)
            mk('empty-loop-header', ['loop_'], CIF_NULL_LOOP)
            mk('loop-without-values', ['loop_', '_n1', '_n2'], CIF_EMPTY_LOOP, None,
               alt=lambda t, c: t['entries'].append(('loop', ['_n1', '_n2'], [])))
        mk('unterminated-quote', ["_uq 'abc def"], CIF_MISSING_ENDQUOTE, lambda t, c: set_item(t, '_uq', q('abc def')))
        mk('unterminated-dquote', ['_uq "abc'], CIF_MISSING_ENDQUOTE, lambda t, c: set_item(t, '_uq', q('abc')))
        if at_end:
            # the input ends inside the string: the closing delimiter is assumed at the end of the input
            mk('unterminated-quote-at-end-of-input', ["_uq 'abc def"], CIF_MISSING_ENDQUOTE, lambda t, c: set_item(t, '_uq', q('abc def')), final_newline=False)
            mk('unterminated-dquote-at-end-of-input', ['_uq "a'], CIF_MISSING_ENDQUOTE, lambda t, c: set_item(t, '_uq', q('a')), final_newline=False)
            mk('unterminated-quote-ending-a-loop-at-end-of-input', ['loop_', '_n1', '_n2', '1 2', '3 "xy'], CIF_MISSING_ENDQUOTE,
               lambda t, c: t['entries'].append(('loop', ['_n1', '_n2'], [[u('1'), u('2')], [u('3'), q('xy')]])), final_newline=False)
        mk('missing-space-after-quote', ["_m1 'x'_m2 y"], CIF_MISSING_SPACE,
           lambda t, c: (set_item(t, '_m1', q('x')), set_item(t, '_m2', u('y'))))
        mk('missing-space-in-list', ["_m3 ['a''b']"], CIF_MISSING_SPACE, lambda t, c: set_item(t, '_m3', ('list', (q('a'), q('b')))))
        mk('missing-space-before-nested-list', ['_m3 [ abcdef[1 2] 7 ]'], CIF_MISSING_SPACE,
           lambda t, c: set_item(t, '_m3', ('list', (u('abcdef'), ('list', (u('1'), u('2'))), u('7')))))
        mk('missing-space-before-list-in-loop', ['loop_', '_n1', '_n2', '1.2345(6)[1 2]'], CIF_MISSING_SPACE,
           lambda t, c: t['entries'].append(('loop', ['_n1', '_n2'], [[u('1.2345(6)'), ('list', (u('1'), u('2')))]])))
        if slot != 'after-loop':
            # an opening bracket inside a white-space delimited value: the value ends there, the list is a stray value
            mk('missing-space-before-list', ['_m4 abc[1 2]'], CIF_MISSING_SPACE, lambda t, c: set_item(t, '_m4', u('abc')))
            # (values at least as long as the keywords data_ / save_, and beginnings of those keywords)
            mk('missing-space-before-list-long-value', ['_m4 abcdefgh[1 2]'], CIF_MISSING_SPACE, lambda t, c: set_item(t, '_m4', u('abcdefgh')))
            mk('missing-space-before-list-number', ['_m4 1.2345(6)[1 2]'], CIF_MISSING_SPACE, lambda t, c: set_item(t, '_m4', u('1.2345(6)')))
            mk('missing-space-before-list-keyword-start', ['_m4 dat[1 2]'], CIF_MISSING_SPACE, lambda t, c: set_item(t, '_m4', u('dat')))
            mk('missing-space-before-table', ["_m4 value{'k':1}"], CIF_MISSING_SPACE, lambda t, c: set_item(t, '_m4', u('value')))
            # a table key outside any table: the colon is where white space is assumed; what follows is a stray value
            mk('missing-space-at-key-colon', ["_m5 'k':v"], CIF_MISSING_SPACE, lambda t, c: set_item(t, '_m5', q('k')))
        # the same inside a list, where a key - quoted or a text block - is just a value lacking its separator
        mk('missing-space-at-key-colon-in-list', ["_m6 ['k':v 2]"], CIF_MISSING_SPACE,
           lambda t, c: set_item(t, '_m6', ('list', (q('k'), u(':v'), u('2')))))
        mk('missing-space-at-text-block-colon-in-list', ['_m7 [', ';txt', ';:v 2]'], CIF_MISSING_SPACE,
           lambda t, c: set_item(t, '_m7', ('list', (q('txt'), u(':v'), u('2')))))
        if slot != 'after-loop':
            mk('stray-close-bracket', [']'], CIF_UNEXPECTED_DELIM)
            mk('stray-close-brace', ['}'], CIF_UNEXPECTED_DELIM)
            mk('unexpected-value', ['stray'], CIF_UNEXPECTED_VALUE)
            mk('unexpected-quoted-value', ["'stray value'"], CIF_UNEXPECTED_VALUE)
            mk('unexpected-list', ['[1 2]'], CIF_UNEXPECTED_VALUE)
        else:
            mk('stray-close-bracket-in-loop-body', [']'], CIF_UNEXPECTED_DELIM)
            mk('stray-close-brace-in-loop-body', ['}'], CIF_UNEXPECTED_DELIM)
        for dn, dch in (('bracket', ']'), ('brace', '}')):
            # a stray closing delimiter among the values of a loop is dropped; the loop body goes on
            mk('stray-close-%s-between-packets' % dn, ['loop_', '_n1', '_n2', '1 2', dch, '3 4'], CIF_UNEXPECTED_DELIM,
               lambda t, c: t['entries'].append(('loop', ['_n1', '_n2'], [[u('1'), u('2')], [u('3'), u('4')]])))
            mk('stray-close-%s-inside-a-packet' % dn, ['loop_', '_n1', '_n2', '1 2', '3 %s 4' % dch], CIF_UNEXPECTED_DELIM,
               lambda t, c: t['entries'].append(('loop', ['_n1', '_n2'], [[u('1'), u('2')], [u('3'), u('4')]])))
        mk('missing-list-close', ['_ml [p q'], CIF_MISSING_DELIM, lambda t, c: set_item(t, '_ml', ('list', (u('p'), u('q')))))
        mk('missing-table-close', ["_mt {'a':1"], CIF_MISSING_DELIM, lambda t, c: set_item(t, '_mt', ('table', (('a', u('1')),))))
        mk('missing-key', ["_mk {'a':1 stray 'b':2}"], CIF_MISSING_KEY, lambda t, c: set_item(t, '_mk', ('table', (('a', u('1')), ('b', u('2'))))))
        mk('missing-key-quoted', ["_mk {'a':1 'stray' 'b':2}"], CIF_MISSING_KEY, lambda t, c: set_item(t, '_mk', ('table', (('a', u('1')), ('b', u('2'))))))
        mk('missing-key-list', ["_mk {[1 2] 'b':2}"], CIF_MISSING_KEY, lambda t, c: set_item(t, '_mk', ('table', (('b', u('2')),))))
        mk('null-key', ["_nk {:v 'b':2}"], CIF_NULL_KEY, lambda t, c: set_item(t, '_nk', ('table', (('b', u('2')),))), twin=["_nk {:vw 'b':2}"])
        mk('null-key-after-entry', ["_nk {'a':5 :1 'b':2}"], CIF_NULL_KEY, lambda t, c: set_item(t, '_nk', ('table', (('a', u('5')), ('b', u('2'))))),
           twin=["_nk {'a':5 :123 'b':2}"])
        mk('null-key-last', ["_nk {'b':2 :v}"], CIF_NULL_KEY, lambda t, c: set_item(t, '_nk', ('table', (('b', u('2')),))), twin=["_nk {'b':2 :vwx}"])
        mk('unquoted-key', ["_uk {a:1 'b':2}"], CIF_UNQUOTED_KEY, lambda t, c: set_item(t, '_uk', ('table', (('a', u('1')), ('b', u('2'))))),
           twin=["_uk {a:12 'b':2}"])
        # the colon ends the white-space delimited token: the value follows after blanks, or as a text field on the next line
        mk('unquoted-key-then-blank', ["_uk {abc: 1 'b':2}"], CIF_UNQUOTED_KEY, lambda t, c: set_item(t, '_uk', ('table', (('abc', u('1')), ('b', u('2'))))))
        mk('unquoted-key-then-text-field', ['_uk {abc:', ';txt', ';', '}'], CIF_UNQUOTED_KEY, lambda t, c: set_item(t, '_uk', ('table', (('abc', q('txt')),))))
        mk('text-block-key', ['_tk {', ';key', ';:1 }'], CIF_MISQUOTED_KEY, lambda t, c: set_item(t, '_tk', ('table', (('key', u('1')),))))
        mk('missing-table-value', ["_tv {'a': 'b':2}"], CIF_MISSING_VALUE, lambda t, c: set_item(t, '_tv', ('table', (('a', UNK), ('b', u('2'))))))
        for w in ('stop_', 'global_', 'data_', 'StOp_', 'GLOBAL_', 'DATA_'):
            if slot != 'after-loop':
                mk('reserved-word-%s' % w.lower().strip('_') + ('-mixed' if w != w.lower() else ''), [w], CIF_RESERVED_WORD)
        mk('reserved-word-as-value', ['_rw stop_'], CIF_RESERVED_WORD, lambda t, c: set_item(t, '_rw', UNK))
        if sel != 'f1':
            mk('unexpected-frame-terminator', ['save_'], CIF_UNEXPECTED_TERM)
            mk('unexpected-frame-terminator-mixed', ['SaVe_'], CIF_UNEXPECTED_TERM)
        mk('overlength-comment', ['#' + 'c' * 2048], CIF_OVERLENGTH_LINE, hi_extra=0)
        mk('overlength-whitespace', [' ' * 2049], CIF_OVERLENGTH_LINE)
        mk('overlength-quoted', ["_ol '" + 'z' * 2044 + "'"], CIF_OVERLENGTH_LINE, lambda t, c: set_item(t, '_ol', q('z' * 2044)))
        mk('overlength-text-line', ['_ot', ';' + 'y' * 2048, ';'], CIF_OVERLENGTH_LINE, lambda t, c: set_item(t, '_ot', q('y' * 2048)))
        mk('overlength-triple', ["_o3 '''" + 'a\n' + 'w' * 2049 + "\n'''"], CIF_OVERLENGTH_LINE,
           lambda t, c: set_item(t, '_o3', q('a\n' + 'w' * 2049 + '\n')), hi_extra=2)
        mk('disallowed-char-in-quoted', ["_dc 'a\x01b'"], CIF_DISALLOWED_CHAR, lambda t, c: set_item(t, '_dc', q('a\x01b')))
        mk('disallowed-char-in-comment', ['# bell \x07 here'], CIF_DISALLOWED_CHAR)
        mk('disallowed-nonchar', ["_dn 'x\ufffey'"], CIF_DISALLOWED_CHAR, lambda t, c: set_item(t, '_dn', q('x\ufffey')),
           alt=lambda t, c: set_item(t, '_dn', q('x\ufffdy')))     # accepted as it is, or replaced (both documented)
        mk('disallowed-del', ['_dd "a\x7f"'], CIF_DISALLOWED_CHAR, lambda t, c: set_item(t, '_dd', q('a\x7f')))
        mk('invalid-bare-value', ['_bv $x'], CIF_INVALID_BARE_VALUE, lambda t, c: set_item(t, '_bv', q('$x')))
        # controls: no defect
        mk('control-2048-comment', ['#' + 'c' * 2047], None)
        mk('control-2048-quoted', ["_ok '" + 'z' * 2042 + "'"], None, lambda t, c: set_item(t, '_ok', q('z' * 2042)))
        mk('control-2048-text-line', ['_ok2', ';' + 'y' * 2047, ';'], None, lambda t, c: set_item(t, '_ok2', q('y' * 2047)))
        mk('control-2048-astral', ['#' + '\U0001f600' * 2047], None)
        mk('control-same-name-in-other-container', [{'h1': '_j1 1', 'f1': '_i1 1', 'h2': '_i1 1'}[sel]], None,
           lambda t, c: set_item(t, {'h1': '_j1', 'f1': '_i1', 'h2': '_i1'}[sel], u('1')))
        mk('control-reserved-looking', ['_rl1 data', '_rl2 loop', '_rl3 stop_x', '_rl4 global_1', "_rl5 'data_'"], None,
           lambda t, c: [set_item(t, n, v) for n, v in (('_rl1', u('data')), ('_rl2', u('loop')), ('_rl3', u('stop_x')), ('_rl4', u('global_1')), ('_rl5', q('data_')))])
    return cases


def structural_cases():
    cases = []
    H = HOST_LINES

    def add(name, lines, code, lo, hi, content, **kw):
        cases.append(Case(name, lines, code, lo, hi, content, **kw))
    # data before the first block header
    for nm, ins, edit in (
            ('item', ['_pre 1'], lambda b: set_item(b, '_pre', u('1'))),
            ('value', ["'lonely'"], None),
            ('loop', ['loop_', '_p1', '_p2', '1 2'], lambda b: b['entries'].append(('loop', ['_p1', '_p2'], [[u('1'), u('2')]])))):
        c = host_content()
        anon = {'code': '', 'entries': []}
        if edit:
            edit(anon)
        c.insert(0, anon)
        add('no-block-header-%s@start' % nm, H[:1] + ins + H[1:], CIF_NO_BLOCK_HEADER, 2, 2, c,
            alt_content=(host_content() if not edit else None))
    # duplicate block code: reopen
    for code in ('h1', 'H1'):
        c = host_content()
        set_item(block(c, 'h1'), '_k1', u('7'))
        add('dup-block-code-%s@end' % code, H + ['data_' + code, '_k1 7'], CIF_DUP_BLOCKCODE, 23, 24, c)
    c = host_content()
    set_item(block(c, 'h1'), '_k1', u('7'))
    add('dup-block-code@middle', H[:20] + ['data_h3', '_z 1', 'data_h1', '_k1 7'] + H[20:], CIF_DUP_BLOCKCODE, 23, 24,
        c[:1] + [{'code': 'h3', 'entries': [('item', '_z', u('1'))]}] + c[1:])
    # invalid block / frame code (too long): used anyway
    long_code = 'x' * 2044
    c = host_content()
    c.append({'code': long_code, 'entries': [('item', '_lc', u('1'))]})
    add('invalid-block-code@end', H + ['data_' + long_code, '_lc 1'], CIF_INVALID_BLOCKCODE, 23, 24, c)
    c = host_content()
    block(c, 'h2')['entries'].append(('frame', {'code': long_code, 'entries': [('item', '_lc', u('1'))]}))
    add('invalid-frame-code@end', H + ['save_' + long_code, '_lc 1', 'save_'], CIF_INVALID_FRAMECODE, 23, 24, c)
    # duplicate frame code: reopen
    for code in ('f1', 'F1'):
        c = host_content()
        set_item(frame(c), '_f3', u('3'))
        add('dup-frame-code-%s@block' % code, H[:20] + ['save_' + code, '_f3 3', 'save_'] + H[20:], CIF_DUP_FRAMECODE, 21, 22, c)
    # unterminated save frame: the following block header ends it
    c = host_content()
    set_item(frame(c), '_i3', u('last'))
    del_item(block(c, 'h1'), '_i3')
    add('unterminated-frame@block-header', H[:18] + H[19:], CIF_NO_FRAME_TERM, 20, 20, c)
    # ... at end of input
    c = host_content()
    block(c, 'h2')['entries'].append(('frame', {'code': 'g', 'entries': [('item', '_g1', u('1'))]}))
    add('eof-in-frame@end', H + ['save_g', '_g1 1'], CIF_EOF_IN_FRAME, 24, 25, c)
    add('eof-in-frame-no-final-newline@end', H + ['save_g', '_g1 1'], CIF_EOF_IN_FRAME, 24, 25, copy.deepcopy(c), final_newline=False)
    # nested frame with the default depth: the inner header implies the missing terminator
    c = host_content()
    blk = block(c, 'h1')
    blk['entries'].insert(6, ('frame', {'code': 'inner', 'entries': [('item', '_in1', u('1'))]}))
    add('nested-frame@frame', H[:18] + ['save_inner', '_in1 1', 'save_'] + H[18:], CIF_NO_FRAME_TERM, 19, 19, c)
    # save frames disabled
    add('frame-not-allowed@block', list(H), CIF_FRAME_NOT_ALLOWED, 13, 14, host_content(), opts=dict(depth=0))
    # unterminated text field / triple-quoted string at end of input
    c = host_content()
    set_item(block(c, 'h2'), '_ut', q('text\nmore\n'))
    add('unclosed-text@end', H + ['_ut', ';text', 'more'], CIF_UNCLOSED_TEXT, 24, 26, c)
    c = host_content()
    set_item(block(c, 'h2'), '_ut', q('text\nmore'))
    add('unclosed-text-no-final-newline@end', H + ['_ut', ';text', 'more'], CIF_UNCLOSED_TEXT, 24, 26, c, final_newline=False)
    c = host_content()
    set_item(block(c, 'h2'), '_u3', q('abc\ndef\n'))
    add('unclosed-triple@end', H + ["_u3 '''abc", 'def'], CIF_UNCLOSED_TEXT, 23, 25, c)
    # over-length final line without terminator
    c = host_content()
    add('overlength-last-line-no-newline@end', H + ['#' + 'c' * 2048], CIF_OVERLENGTH_LINE, 23, 23, c, final_newline=False)
    # partial packet / missing delimiter at end of input
    c = host_content()
    block(c, 'h2')['entries'].append(('loop', ['_n1', '_n2'], [[u('1'), u('2')], [u('3'), UNK]]))
    add('partial-packet@eof', H + ['loop_', '_n1', '_n2', '1 2 3'], CIF_PARTIAL_PACKET, 26, 27, c)
    add('partial-packet-no-final-newline@eof', H + ['loop_', '_n1', '_n2', '1 2 3'], CIF_PARTIAL_PACKET, 26, 27, copy.deepcopy(c), final_newline=False)
    c = host_content()
    set_item(block(c, 'h2'), '_ml', ('list', (u('p'),)))
    add('missing-list-close@eof', H + ['_ml [p'], CIF_MISSING_DELIM, 23, 24, c)
    # a character that may not even start a CIF: reported as such, then accepted - what follows it on the line is a stray
    # value (before any block header), which opens the anonymous block
    for label, ch in (('c0', '\x01'), ('del', '\x7f'), ('nonchar', '\ufffe')):
        c = [{'code': '', 'entries': []}] + host_content()
        add('disallowed-initial-char-%s@start' % label, [ch + H[0]] + H[1:], CIF_DISALLOWED_INITIAL_CHAR, 1, 1, c, opts=dict(prefer_cif2=20))
    # plain host: no callback at all
    add('control-host@none', list(H), None, 0, 0, host_content())
    add('control-host-no-final-newline@none', list(H), None, 0, 0, host_content(), final_newline=False)
    return cases


def all_cases():
    return insertion_cases() + structural_cases()


def run_case(ctx, L, i, case, style):
    text = '\n'.join(case.lines) + ('\n' if case.final_newline else '')
    if style == 'crlf':
        text = text.replace('\n', '\r\n')
    elif style == 'cr':
        text = text.replace('\n', '\r')
    info = dict(index=i, case=case.name, style=style)
    opts = parsing.make_opts(**case.opts)
    res = parsing.parse(L, text.encode('utf-8', 'surrogatepass'), opts, 'new', 'accept')
    label = '%s:%s' % (case.klass, case.position)
    try:
        for k, d in res.problems:
            ctx.violation(k, d, info)
        codes = [e[0] for e in res.errors]
        ctx.add('first_codes', str(codes[0]) if codes else 'none')
        if case.code is None:
            if codes:
                ctx.violation('recover:%s:spurious-error:%d' % (label, codes[0]), 'a document without defect (%s) triggered the error callback: %r' % (case.name, res.errors[:4]), info)
                return
        else:
            if not codes:
                ctx.violation('recover:%s:no-report' % label, 'defect %s was not reported at all (rc=%d)' % (case.name, res.rc), info)
                return
            if codes[0] != case.code:
                ctx.violation('recover:%s:first-code:want%d:got%d' % (label, case.code, codes[0]),
                              'defect %s: first reported code %d (then %r), documented %d' % (case.name, codes[0], codes[1:5], case.code), info)
                return
            line = res.errors[0][1]
            if not (case.lo <= line <= case.hi):
                ctx.violation('recover:%s:line' % label, 'defect %s reported at line %d, outside [%d, %d]' % (case.name, line, case.lo, case.hi), info)
                return
        if res.rc != CIF_OK:
            ctx.violation('recover:%s:rc:%d' % (label, res.rc), 'all errors were accepted but cif_parse returned %d (errors %r)' % (res.rc, codes[:6]), info)
            return
        if case.twin_lines:
            ttext = '\n'.join(case.twin_lines) + '\n'
            if style != 'lf':
                ttext = ttext.replace('\n', '\r\n' if style == 'crlf' else '\r')
            tw = parsing.parse(L, ttext.encode('utf-8'), opts, 'new', 'accept')
            if tw.cif:
                L.destroy(tw.cif)
            ctx.count('twin_documents')
            tcodes = [e[0] for e in tw.errors]
            if tcodes != codes:
                ctx.violation('recover:%s:sequence-depends-on-token-length' % label, 'defect %s: codes %r, but %r when the token after the defect is longer (%r)'
                              % (case.name, codes[:6], tcodes[:6], [l for l in case.twin_lines if l not in case.lines][:1]), info)
                return
        got = D.dump(L, res.cif)
        want = GC.expected_dump(case.content, 2)
        if got != want:
            if case.alt is not None and got == GC.expected_dump(case.alt, 2):
                ctx.count('alternative_recovery_observed')
            else:
                ctx.violation('recover:%s:content' % label, 'after recovery from %s the CIF differs from what the documented action prescribes: %s' % (case.name, D.first_difference(got, want)), info)
                return
        # the same bytes in syntax-only mode (no target CIF): "errors in CIF syntax will be detected as normal, but some
        # semantic errors, such as duplicate data names, frame codes, or block codes will not be detected" - judged for
        # the classes that are plainly syntax (token and delimiter structure), not for names, codes and frame nesting
        if case.klass.startswith(SYNTAX_CLASSES):
            res2 = parsing.parse(L, text.encode('utf-8', 'surrogatepass'), parsing.make_opts(**case.opts), None, 'accept')
            for k, d in res2.problems:
                ctx.violation(k, d, info)
            first2 = res2.errors[0][0] if res2.errors else None
            if first2 != case.code or res2.rc != CIF_OK:
                ctx.violation('recover:%s:syntax-only:first-code' % label, 'defect %s parsed without a target CIF: cif_parse -> %d, first reported code %r (then %r), documented %r' % (case.name, res2.rc, first2, [e[0] for e in res2.errors[1:5]], case.code), info)
                return
            ctx.count('syntax_only_twins_agreeing')
        if case.klass.startswith('no-block-header'):
            # "parse into an anonymous block ... the data are available via that name": also when the CIF parsed into
            # already holds that block - more header-less text joins it
            more = parsing.parse(L, b'#\\#CIF_2.0\n_joins_the_anonymous_block 7\n', parsing.make_opts(), res.cif, 'accept')
            codes2 = [e[0] for e in more.errors]
            rcb, anon = L.get_block(res.cif, '')
            rcv = None
            if anon:
                rcv, v = L.get_value(anon, '_joins_the_anonymous_block')
                if v:
                    L.value_free(v)
                L.container_free(anon)
            if more.rc != CIF_OK or codes2[:1] != [CIF_NO_BLOCK_HEADER] or rcb != CIF_OK or rcv != CIF_OK:
                ctx.violation('recover:%s:second-headerless-parse' % label, 'more header-less text parsed into the CIF that already holds the anonymous block: cif_parse -> %d, errors %r, cif_get_block("") -> %d, the new item -> %r'
                              % (more.rc, codes2[:4], rcb, rcv), info)
                return
            ctx.count('second_headerless_parses')
        ctx.count('cases_agreeing')
        ctx.add('classes', case.klass)
        ctx.add('class_positions', label)
    finally:
        if res.cif:
            L.destroy(res.cif)


def worker(ctx):
    L = ctx.L
    cases = all_cases()
    styles = ctx.params['styles']
    total = len(cases) * len(styles)
    if ctx.params.get('_single') is not None:
        ctx.single = ctx.params['_single']
    scope = LedgerScope(L).__enter__()
    for i in ctx.cases(total):
        case = cases[i // len(styles)]
        style = styles[i % len(styles)]
        ctx.begin(i, case.name)
        ctx.count('cases')
        run_case(ctx, L, i, case, style)
        ctx.drain_events(dict(index=i, case=case.name))
        if i % 211 == 0:
            ctx.sample(dict(index=i, case=case.name, style=style, first_code=case.code, lines=case.lines[max(0, case.lo - 2):case.lo + 2]), 4)
    for suffix, detail in scope.finish():
        ctx.violation(suffix, detail, dict(index=-1))


def run(env):
    styles = ['lf', 'crlf'] if env.quick else ['lf', 'crlf', 'cr']
    n = len(all_cases()) * len(styles)
    res = env.run_pool(MODULE, dict(styles=styles), nshards=16)
    inconclusive = list(res.inconclusive)
    if res.count('cases') < n and not res.violations:
        inconclusive.append('only %d of %d cases ran' % (res.count('cases'), n))
    return dict(
        level='exploration',
        coverage=dict(
            evaluations=res.count('cases'), distinct_nontrivial=res.count('cases_agreeing'),
            rule='one evaluation = the host document with one planted defect (class x position x terminator style) or '
                 'a control without defect; cases are distinct by construction; non-trivial = first code, its line '
                 'interval, the return value and the recovered content all as the documentation prescribes',
            samples=res.samples, defect_classes=sorted(res.sets.get('classes', ())),
            class_position_pairs=len(res.sets.get('class_positions', ())),
            first_codes_observed=sorted(res.sets.get('first_codes', ())),
            alternative_recovery_observed=res.count('alternative_recovery_observed'),
            syntax_only_twins_agreeing=res.count('syntax_only_twins_agreeing'), second_headerless_parses=res.count('second_headerless_parses'), crashes=res.crashes),
        violations=res.violations, inconclusive=inconclusive,
        assumptions=['the recovery table in vp/checks/C12.py is a faithful reading of the @page error_recovery '
                     'documentation', 'an accepted empty loop may or may not survive to the end of the parse'])


def replay(env, rec):
    env.single = (rec.get('case') or {}).get('index')
    return run(env)
