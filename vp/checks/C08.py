"""C08 - parse results are independent of line-terminator style and buffer boundaries.

Metamorphic: a base document (well-formed part written by the independent writer + a tail with planted defects, so
that the error sequence is non-empty) is parsed once with LF terminators and no padding; every transform
(terminator style LF / CR LF / CR / per-line mixture; k bytes of comment / blank padding after the first line for
every k in 0..4095, i.e. every alignment against the 4096-byte read buffer; UTF-16 input; tokens longer than the
131 200-unit scan buffer) must give the same dump and the same sequence of (error code, line) - lines shifted by the
number of lines the padding inserted.  For the well-formed part the dump is additionally the generator's content."""
from .. import dump as D
from .. import gen_cif as GC
from .. import parsing
from ..lib import *      # noqa: F401,F403
from ..monitors import LedgerScope

MODULE = __name__

DEFECT_TAIL = ("\ndata_zz_defects\n_x 1\n_x 2\n_y\n_z 'unterminated\n_q ok\nloop_\n_l1 _l2 1 2 3\n"
               "_t\n;text\nfield\n;\n_u [ a b\n_w 5\n")
STYLES = ['lf', 'crlf', 'cr', 'mix']


def base_document(ctx, n):
    """deterministic base document number n: (text with LF terminators, abstract doc of the well-formed part)"""
    rng = ctx.rng('C08-base', n)
    if n % 3 == 2:
        return base_document_cif1(rng, n)
    doc = []
    used = {'codes': set()}
    # rich in multi-line values, supplementary-plane and 3-byte characters, CR LF-sensitive constructs
    entries = []
    names = set()
    for j in range(28):
        r = rng.random()
        nm = GC.rand_name(rng, names, 2)
        if r < 0.3:
            t = '\n'.join(''.join(rng.choice('ab \U0001f600€é;\\\'"#') for _ in range(rng.randint(0, 40))) for _ in range(rng.randint(2, 6)))
            entries.append(('item', nm, ('char', GC.clean_text(t), True)))
        elif r < 0.5:
            entries.append(('item', nm, GC.rand_doc_value(rng, 2, depth=2, maxlen=30)))
        elif r < 0.7:
            k = rng.randint(2, 4)
            ns = [nm] + [GC.rand_name(rng, names, 2) for _ in range(k - 1)]
            entries.append(('loop', ns, [[GC.rand_doc_value(rng, 2, depth=1, maxlen=20) for _ in range(k)] for _ in range(rng.randint(2, 5))]))
        else:
            entries.append(('item', nm, ('char', ''.join(rng.choice('xyz\U00010000中') for _ in range(rng.randint(1, 60))), rng.random() < 0.5 or True)))
    doc.append({'code': 'base%d' % n, 'entries': entries})
    w = GC.Writer(rng, 2, magic=True, comments=True)
    text = w.document(doc, trailing='\n')
    return text, doc


def base_document_cif1(rng, n):
    """a CIF 1.1 base document: quoted strings with embedded delimiters (which need one character of look-ahead at
    every embedded quote), text fields, bracketed values, loops"""
    entries = []
    names = set()
    words = ["it's", 'say"hi"now', "don't", 'a"b', "x'y'z", 'O"Neil\'s', "rock'n'roll", '5"', "l'", 'q""q', "''tis"]
    for j in range(40):
        nm = GC.rand_name(rng, names, 1)
        r = rng.random()
        if r < 0.6:
            t = ' '.join(rng.choice(words) for _ in range(rng.randint(2, 6)))
            entries.append(('item', nm, ('char', t, True)))
        elif r < 0.75:
            t = '\n'.join(' '.join(rng.choice(words + ['plain', 'se;mi']) for _ in range(rng.randint(1, 5))) for _ in range(rng.randint(2, 4)))
            entries.append(('item', nm, ('char', GC.clean_text(t, 1), True)))
        elif r < 0.9:
            entries.append(('item', nm, GC.rand_doc_value(rng, 1, depth=0, maxlen=20)))
        else:
            k = rng.randint(2, 3)
            ns = [nm] + [GC.rand_name(rng, names, 1) for _ in range(k - 1)]
            entries.append(('loop', ns, [[('char', rng.choice(words) + ' ' + rng.choice(words), True) for _ in range(k)] for _ in range(rng.randint(2, 4))]))
    doc = [{'code': 'base%d' % n, 'entries': entries}]
    w = GC.Writer(rng, 1, magic=True, comments=True)
    text = w.document(doc, trailing='\n')
    return text, doc


def pad_bytes(k, style, unit=1):
    """padding text occupying exactly k bytes in the final encoding (unit = bytes per character) and the number of
    line terminators it contains"""
    eol = {'lf': '\n', 'crlf': '\r\n', 'cr': '\r', 'mix': '\n'}[style]
    out = []
    lines = 0
    nchar = k // unit
    while nchar > 0:
        take = min(nchar, 997)
        if take <= len(eol):
            out.append(' ' * take)
        else:
            body = take - len(eol)
            out.append(('#' + 'p' * (body - 1)) if body >= 1 else '')
            out.append(eol)
            lines += 1
        nchar -= take
    return ''.join(out), lines


def restyle(text, style, rng):
    if style == 'lf':
        return text
    if style == 'crlf':
        return text.replace('\n', '\r\n')
    if style == 'cr':
        return text.replace('\n', '\r')
    parts = text.split('\n')
    out = []
    prev = ''
    for p in parts[:-1]:
        out.append(p)
        # an empty line terminated by LF directly after a CR-terminated line would read as one CR LF pair
        eol = rng.choice(['\r\n', '\r'] if (p == '' and prev == '\r') else ['\n', '\r\n', '\r'])
        out.append(eol)
        prev = eol
    out.append(parts[-1])
    return ''.join(out)


def run_parse(L, data, opts=None):
    res = parsing.parse(L, data, opts or parsing.make_opts(), 'new', 'accept')
    try:
        d = D.dump(L, res.cif) if res.cif else None
    finally:
        if res.cif:
            L.destroy(res.cif)
    return res.rc, d, [(c, l) for c, l, col, ln in res.errors], res.problems


def compare(ctx, ref, got, shift, label, info, first_line_errors_fixed=True):
    rc0, d0, e0, _ = ref
    rc1, d1, e1, probs = got
    for k, dd in probs:
        ctx.violation(k, dd, info)
    if rc1 != rc0:
        ctx.violation('parse:%s:rc' % label, 'result code %d, reference (LF, unpadded) %d' % (rc1, rc0), info)
        return False
    if d1 != d0:
        ctx.violation('parse:%s:content' % label, 'stored content differs from the reference parse: %s' % D.first_difference(d1, d0), info)
        return False
    want = [(c, l + (shift if l > 1 else 0)) for c, l in e0]
    if e1 != want:
        if [c for c, _ in e1] != [c for c, _ in want]:
            ctx.violation('parse:%s:error-codes' % label, 'error codes %r, reference %r' % ([c for c, _ in e1][:12], [c for c, _ in want][:12]), info)
        else:
            bad = [(a, b) for a, b in zip(e1, want) if a != b][:4]
            ctx.violation('parse:%s:error-lines' % label, 'error lines differ (got, expected): %r' % bad, info)
        return False
    return True


def case_list(nbase, step):
    cases = []
    for b in range(nbase):
        for style in ('lf', 'crlf'):
            for k in range(0, 4096, step):
                cases.append(('pad', b, style, k))
        for style in ('cr', 'mix'):
            for k in range(0, 4096, 64 if step == 1 else 256):
                cases.append(('pad', b, style, k + (b % 7)))
        if b % 3 != 2:       # (the CIF 1.1 base is not served in UTF-16)
            for k in range(0, 4096, 32 if step == 1 else 128):
                cases.append(('utf16', b, 'crlf' if k % 64 else 'lf', k))
    for kind in ('text', 'triple', 'comment', 'unquoted', 'quoted-text-crlf'):
        for size in (131190, 131198, 131199, 131200, 131201, 131202, 131210, 262395, 262400, 262410, 300000):
            for style in ('lf', 'crlf'):
                cases.append(('big', kind, style, size))
    # a run of blank lines longer than the scan buffer: in the CR style every fill, also the one that reaches the end of
    # the buffer, ends in a terminator that may be the first half of a pair
    for size in (131150, 131199, 131200, 131201, 262400, 300000):
        for style in ('lf', 'crlf', 'cr'):
            cases.append(('big', 'blank-lines', style, size))
    # tokens of every kind deep inside a large document, where the scan buffer has filled up and is compacted
    # (about every 128 Ki characters), and a document that ends inside such a compaction window
    fine = 128 if step == 1 and nbase <= 3 else 256
    for style in ('lf', 'crlf', 'cr'):
        for k in sorted(set(list(range(fine)) + list(range(0, 4096, 97)))):
            cases.append(('deep', 'units', style, k))
        for k in range(0, 4096, 64 if nbase <= 3 else 8):
            cases.append(('deep', 'long-items', style, k))
        # a text field larger than twice the scan buffer made of supplementary-plane characters: wherever the buffer
        # runs full, a surrogate pair is about to be split between two fills
        for k in (range(0, 48) if nbase <= 3 else range(0, 512)):
            cases.append(('deep', 'astral-text', style, k))
        # the same in every other scanning context: comments, quoted, unquoted and triple-quoted strings, list
        # elements, table keys
        for k in (range(0, 64) if nbase <= 3 else range(0, 512)):
            cases.append(('deep', 'astral-comment', style, k))
        for k in (range(0, 16) if nbase <= 3 else range(0, 256)):
            cases.append(('deep', 'astral-values', style, k))
    for start in ('\r', '\r\n', '\ufeff\r', '\ufeff\r\n', '\n', '\r\r\n', '\ufeff\n', ' \r\n'):
        for style in ('lf', 'crlf', 'cr'):
            cases.append(('start', start, style, 0))
    for npairs in (0, 1, 2, 3, 100):
        for where in (4094, 4095, 4096, 4097, 8191, 8192):
            cases.append(('split', npairs, 'crlf', where))
    return cases


def big_document(kind, size):
    """a document with one token of about `size` code units (larger than the scan buffer)"""
    head = '#\\#CIF_2.0\ndata_big\n_before ok\n'
    tail = '\n_after \'still here\'\n_x\n_x 1\n'      # a missing value and a duplicate name: errors after the big token
    if kind == 'text':
        lines = []
        n = 0
        i = 0
        while n < size:
            ln = ('line %d ' % i) + 'é\U0001f600' * 20 + ' end'
            lines.append(ln)
            n += len(ln.encode('utf-16-le')) // 2 + 1
            i += 1
        return head + '_big\n;' + '\n'.join(lines) + '\n;' + tail
    if kind == 'triple':
        lines = ['q' * 1000 for _ in range(size // 1001)]
        return head + "_big '''" + '\n'.join(lines) + "'''" + tail
    if kind == 'comment':
        out = head
        n = 0
        while n < size:
            out += '#' + 'c' * 1500 + '\n'
            n += 1502
        return out + '_big small' + tail
    if kind == 'unquoted':
        return head + '_big ' + 'u' * size + tail          # also an over-length line: reported, then accepted
    if kind == 'blank-lines':
        return head + '_big small' + '\n' * size + tail
    # many CR LF pairs inside a long text field when restyled
    lines = ['ab' for _ in range(size // 3)]
    return head + '_big\n;' + '\n'.join(lines) + '\n;' + tail


DEEP_FILL = 131072


def deep_document(kind, pad):
    """-> (text, number of items).  'units': short items of every token kind packed around the offsets where the scan
    buffer is compacted for the first and the second time, comment filler elsewhere; 'long-items': 417 items of about
    620 bytes, then 40 short ones, about 260 kB in all, so that the last short read arrives while the buffer is nearly
    full.  `pad` characters of comment after the first two lines move everything that follows."""
    out = ['#\\#CIF_2.0\ndata_deep\n']
    n = len(out[0]) + 2                     # offsets are planned for pad = 0; the padding then slides the tokens across
    left = pad
    while True:
        m = min(left, 1500)
        out.append('#' + 'p' * m + '\n')
        left -= m
        if left <= 0:
            break
    items = 0
    if kind == 'units':
        k = 0
        for target in (DEEP_FILL, 2 * DEEP_FILL):
            while n < target - 3000:
                m = min(1000, target - 3000 - n)
                line = '#' + 'f' * max(m - 2, 0) + '\n'
                out.append(line)
                n += len(line)
            while n < target + 6000:
                u = ("_a%04d\n;text %04d\nsecond line\n;\n_b%04d \"\"\"tq %04d\nmore\"\"\" _c%04d 'q %04d' _d%04d [%04d {'k':v%04d}] _e%04d %04d\n"
                     % (k, k, k, k, k, k, k, k, k, k, k))
                out.append(u)
                n += len(u)
                items += 5
                k += 1
        out.append('_last_item done\n')
        items += 1
    elif kind == 'astral-text':
        out.append('_t\n;')
        for j in range(3400):
            # (mostly one-byte characters: a 4096-byte read then yields more code units than the nearly full buffer
            # has room for, and the conversion stops wherever the room ends - one time in four on a lead surrogate)
            out.append('ab\U0001f600' * (19 + j % 3) + ('x' if j % 5 == 0 else '') + '\n')
        out.append(';\n_after 1\n')
        items = 2
    elif kind == 'astral-comment':
        out.append('_before 0\n')
        for j in range(3400):
            out.append('#' + 'ab\U0001f600' * (19 + j % 3) + ('x' if j % 5 == 0 else '') + '\n')
        out.append('_after 1\n')
        items = 2
    elif kind == 'astral-values':
        for j in range(3400):
            body = 'ab\U0001f600' * (18 + j % 3) + ('x' if j % 5 == 0 else '')
            form = j % 6
            if form == 0:
                out.append("_q%04d '%s'\n" % (j, body))
            elif form == 1:
                out.append('_u%04d %s\n' % (j, body))
            elif form == 2:
                out.append('_t%04d \"\"\"%s\n%s\"\"\"\n' % (j, body[:30], body[30:]))
            elif form == 3:
                out.append('_l%04d [%s "%s"]\n' % (j, body[:31], body[31:]))
            elif form == 4:
                out.append("_k%04d {'%s':%s}\n" % (j, body[:40], body[40:]))
            else:
                out.append('_n%04d%s %d\n' % (j, body[:45], j))
            items += 1
    else:
        for j in range(417):
            out.append("_L%03d '%s'\n" % (j, ('%03d ' % j) + 'v' * 606))
            items += 1
        for j in range(40):
            out.append('_s%02d %d\n' % (j, j))
            items += 1
    return ''.join(out), items


def count_items(d):
    """scalar items of the single block of a dump"""
    try:
        return sum(len(lp[1]) for lp in d[1][0][2])
    except Exception:
        return -1


def worker(ctx):
    L = ctx.L
    nbase = ctx.params['nbase']
    step = ctx.params['step']
    cases = case_list(nbase, step)
    if ctx.params.get('_single') is not None:
        ctx.single = ctx.params['_single']
    bases = {}
    refs = {}
    scope = LedgerScope(L).__enter__()
    for i in ctx.cases(len(cases)):
        c = cases[i]
        ctx.begin(i, c)
        ctx.count('parses')
        rng = ctx.rng('C08', i)
        info = dict(index=i, case=list(c))
        kind = c[0]
        if kind in ('pad', 'utf16'):
            _, b, style, k = c
            if b not in bases:
                text, doc = base_document(ctx, b)
                bases[b] = (text, doc)
                first, rest = text.split('\n', 1)
                full = first + '\n' + rest + DEFECT_TAIL
                refs[(b, 'utf8')] = run_parse(L, full.encode('utf-8'))
                refs[(b, 'utf16')] = run_parse(L, ('\ufeff' + full).encode('utf-16-le'))
                # the well-formed part alone must also be exactly the generator's content (ties the reference to C01)
                rc, d, errs, probs = run_parse(L, text.encode('utf-8'))
                if errs or rc != CIF_OK or d != GC.expected_dump(doc, 1 if b % 3 == 2 else 2):
                    ctx.violation('parse:base:content', 'the unpadded LF base document does not parse to its content (%r)' % (errs[:3],), info)
            text, doc = bases[b]
            first, rest = text.split('\n', 1)
            if kind == 'pad':
                pad, lines = pad_bytes(k, style, 1)
                body = restyle(first + '\n', style, rng) + pad + restyle(rest + DEFECT_TAIL, style, rng)
                got = run_parse(L, body.encode('utf-8'))
                ok = compare(ctx, refs[(b, 'utf8')], got, lines, 'pad-%s' % style, info)
                ctx.add('offsets', '%s:%d' % (style, k % 4096))
            else:
                k2 = k - (k % 2)
                pad, lines = pad_bytes(k2, style, 2)
                body = '\ufeff' + restyle(first + '\n', style, rng) + pad + restyle(rest + DEFECT_TAIL, style, rng)
                got = run_parse(L, body.encode('utf-16-le'))
                ok = compare(ctx, refs[(b, 'utf16')], got, lines, 'utf16-%s' % style, info)
                ctx.add('offsets', 'utf16:%d' % (k2 % 4096))
        elif kind == 'big':
            _, tk, style, size = c
            text = big_document(tk, size)
            key = ('big', tk, size)
            if key not in refs:
                refs[key] = run_parse(L, text.encode('utf-8'))
                if len(refs) > 40:
                    for kk in [x for x in refs if x[0] == 'big' and x != key]:
                        del refs[kk]
            got = run_parse(L, restyle(text, style, rng).encode('utf-8'))
            ok = compare(ctx, refs[key], got, 0, 'big-%s-%s' % (tk, style), info)
            # sanity of the reference itself: the values around the big token survive
            rc0, d0, e0, _ = refs[key]
            if d0 is None or 'still here' not in repr(d0):
                ctx.violation('parse:big-%s:reference' % tk, 'the item after the big token is missing from the reference parse', info)
            ctx.add('big', '%s:%d' % (tk, size))
        elif kind == 'deep':
            _, dk, style, k = c
            key = ('deep', dk)
            if key not in refs:
                text0, nitems = deep_document(dk, 0)
                refs[key] = run_parse(L, text0.encode('utf-8'))
                rc0, d0, e0, _ = refs[key]
                if rc0 != CIF_OK or e0 or d0 is None or count_items(d0) != nitems:
                    ctx.violation('parse:deep-%s:reference' % dk, 'the unpadded reference document (%d items, %d bytes) parses to %d items, rc %d, errors %r' % (nitems, len(text0), count_items(d0) if d0 else -1, rc0, e0[:3]), info)
            text, nitems = deep_document(dk, k)
            got = run_parse(L, restyle(text, style, rng).encode('utf-8'))
            ok = compare(ctx, refs[key], got, 0, 'deep-%s-%s' % (dk, style), info)
            ctx.add('deep', '%s:%s' % (dk, style))
            ctx.count('deep_documents')
        elif kind == 'start':
            _, start, style, _ = c
            body = '_a 1\n_b\n;t1\nt2\n;\n_a 2\n'
            bom = '\ufeff' if start.startswith('\ufeff') else ''
            lead = start[len(bom):]
            ref_text = bom + lead.replace('\r\n', '\n').replace('\r', '\n') + 'data_s\n' + body
            key = ('start', ref_text)
            if key not in refs:
                refs[key] = run_parse(L, ref_text.encode('utf-8'))
            got = run_parse(L, (bom + lead + restyle('data_s\n' + body, style, rng)).encode('utf-8'))
            ok = compare(ctx, refs[key], got, 0, 'start-%s' % style, info)
            rc0, d0, e0, _ = refs[key]
            if d0 is None or "'data_s'" in repr(d0) or 't1\\nt2' not in repr(d0):
                ctx.violation('parse:start:reference', 'reference parse of a document starting with %r lost content: %r' % (lead, d0), info)
        else:
            _, npairs, style, where = c
            # CR LF pairs placed so that one straddles byte offset `where`, preceded by npairs pairs in the same fill
            head = '#\\#CIF_2.0\ndata_s\n_v\n;'
            lines = ['L%03d' % j for j in range(npairs)]
            pre = head + '\n'.join(lines) + ('\n' if lines else '')
            pre_b = len(restyle(pre, 'crlf', rng).encode('utf-8'))
            fill = where - 1 - pre_b          # so that the CR of the next pair is byte where-1 and its LF byte where
            if fill < 0:
                fill = fill % 4096
            text = pre + 'f' * fill + '\nafter the split\n;\n_w 1\n_w 2\n'
            key = ('split', text)
            refs[key] = run_parse(L, text.encode('utf-8'))
            got = run_parse(L, restyle(text, 'crlf', rng).encode('utf-8'))
            ok = compare(ctx, refs[key], got, 0, 'split-crlf', info)
            del refs[key]
        if ok:
            ctx.count('parses_agreeing')
        ctx.drain_events(info)
        if i % 500 == 0:
            for suffix, detail in scope.finish():
                ctx.violation(suffix, detail, info)
            scope = LedgerScope(L).__enter__()
        if i % 4001 == 0:
            ctx.sample(info, 4)
    for suffix, detail in scope.finish():
        ctx.violation(suffix, detail, dict(index=-1))


def run(env):
    nbase = 3 if env.quick else 40
    step = 1
    ncases = len(case_list(nbase, step))
    res = env.run_pool(MODULE, dict(nbase=nbase, step=step), nshards=16, case_timeout=180,
                       total_timeout=3000 if env.quick else 30000)
    inconclusive = list(res.inconclusive)
    if res.count('parses') < ncases and not res.violations:
        inconclusive.append('only %d of %d cases ran' % (res.count('parses'), ncases))
    offs = res.sets.get('offsets', set())
    return dict(
        level='exploration',
        coverage=dict(
            evaluations=res.count('parses'), distinct_nontrivial=res.count('parses_agreeing'),
            rule='one evaluation = one transformed document (terminator style x padding offset, UTF-16 variant, '
                 'scan-buffer-sized token, leading terminator, CR LF pair straddling a fill boundary) compared with the '
                 'reference parse of the same content; cases are distinct by construction (enumerated); non-trivial = '
                 'content and (code, line) error sequence both equal to the reference',
            samples=res.samples, base_documents=nbase,
            lf_offsets_mod_4096=len([o for o in offs if o.startswith('lf:')]),
            crlf_offsets_mod_4096=len([o for o in offs if o.startswith('crlf:')]),
            utf16_offsets=len([o for o in offs if o.startswith('utf16:')]),
            big_token_cases=sorted(res.sets.get('big', ())),
            documents_with_tokens_at_scan_buffer_compaction_points=res.count('deep_documents'), crashes=res.crashes),
        violations=res.violations, inconclusive=inconclusive,
        assumptions=['errors reported on line 1 (encoding) are not shifted by padding, all others are'])


def replay(env, rec):
    env.single = (rec.get('case') or {}).get('index')
    return run(env)
