"""C09 - codes, data names and table keys are matched by normalised equivalence.

(a) cif_normalize against ICU's *other* entry points (unorm2_normalize with the NFD / NFC singletons, full case
    folding through the UTF-8 path ucasemap_utf8FoldCase): exhaustively every Unicode scalar value as a one-character
    string; base x mark and mark x mark pairs over all characters with non-zero combining class; characters whose
    case folding expands or changes combining class; random strings in NFC / NFD / shuffled-mark spellings; prefix
    lengths through srclen.  Judged: equality with the oracle, idempotence, equality for canonically equivalent input.
(b) API level: an object created under spelling s is found / reported duplicate under t exactly when N(s) = N(t)
    (blocks, frames, items, packet items), with N computed by the oracle.
(c) table keys: canonical equivalence only, case significant, enumeration in the most recently used spelling.
(d) validity: every class of disallowed code point at first / middle / last position and the length boundaries."""
from .. import icu as ICUmod
from ..lib import *      # noqa: F401,F403
from ..monitors import LedgerScope

MODULE = __name__
BLOCK = 4096        # scalar values per case in the exhaustive sweep


def is_surrogate(cp):
    return 0xd800 <= cp <= 0xdfff


def check_norm(ctx, L, icu, s, tag, info_extra=None):
    """cif_normalize(s) against the oracle + idempotence; returns the library's result"""
    rc, n1 = L.normalize(s)
    ctx.count('normalizations')
    if rc != CIF_OK:
        ctx.violation('norm:rc:%s' % tag, 'cif_normalize(%r) -> %d' % (s, rc), dict(string=[hex(ord(c)) for c in s][:20], **(info_extra or {})))
        return None
    want = icu.cif_norm(s)
    if n1 != want:
        ctx.violation('norm:oracle:%s' % tag, 'cif_normalize(%s) = %s, NFC(fold(NFD(x))) through the independent ICU path = %s'
                      % (cps(s), cps(n1), cps(want)), dict(string=cps(s), **(info_extra or {})))
        return n1
    rc, n2 = L.normalize(n1)
    if rc != CIF_OK or n2 != n1:
        ctx.violation('norm:idempotence:%s' % tag, 'cif_normalize is not idempotent on %s: %s then %s' % (cps(s), cps(n1), cps(n2)), dict(string=cps(s)))
    return n1


def cps(s):
    return ' '.join('%04X' % ord(c) for c in s[:24]) + (' ...' if len(s) > 24 else '')


def check_equiv(ctx, L, icu, s, tag):
    """canonically equivalent spellings normalise identically"""
    base = check_norm(ctx, L, icu, s, tag)
    if base is None:
        return
    for variant in (icu.nfd(s), icu.nfc(s)):
        if variant != s:
            rc, n = L.normalize(variant)
            ctx.count('normalizations')
            if rc != CIF_OK or n != base:
                ctx.violation('norm:equivalence:%s' % tag, 'canonically equivalent inputs normalise differently: %s -> %s but %s -> %s'
                              % (cps(s), cps(base), cps(variant), cps(n or '')), dict(string=cps(s)))
                return
    ctx.count('equivalence_classes')


# ---- workloads --------------------------------------------------------------------------------------------------

def sweep_scalars(ctx, L, icu, first):
    for cp in range(first, min(first + BLOCK, 0x110000)):
        if is_surrogate(cp) or cp == 0:      # U+0000 terminates a C string
            continue
        c = chr(cp)
        check_norm(ctx, L, icu, c, 'single')
        ctx.count('scalars')


SPECIAL_FOLD = [0x0345, 0x1e9e, 0x0130, 0x03c2, 0x00df, 0x0149, 0x01f0, 0x0390, 0x03b0, 0x0587, 0x1e96, 0x1f50, 0x1f80,
                0x1fb3, 0x1fc3, 0x1ff3, 0xfb00, 0xfb06, 0xfb13, 0x1fd3, 0x1fe3, 0x2126, 0x212a, 0x212b, 0xac00, 0xd7a3,
                0x1100, 0x1161, 0x11a8, 0x0344, 0x0958, 0x0f73, 0x0f75, 0x0f81, 0x1d15e, 0x2adc, 0x1f71, 0x0340, 0x0341,
                0x10400, 0x118a0, 0x1e900, 0x16e40, 0x10c80, 0x13a0, 0xab70, 0x1c80, 0x1c88, 0xa64a]


def marks(icu):
    out = []
    for cp in range(0x300, 0x1f000):
        if not is_surrogate(cp) and icu.ccc(cp) != 0:
            out.append(cp)
    return out


def run_pairs(ctx, L, icu, idx, npairs):
    rng = ctx.rng('C09-pairs', idx)
    mk = ctx._marks
    bases = [0x61, 0x41, 0x65, 0x45, 0x6f, 0x4f, 0x75, 0x55, 0x69, 0x49, 0x3b1, 0x391, 0x3b9, 0x399, 0x3c9, 0x3a9, 0x43e,
             0x1100, 0xac00, 0x64, 0x44, 0x73, 0x53, 0x6b, 0x4b, 0xe5, 0xc5, 0x212b, 0x1e0d, 0x1e9b, 0x17f] + SPECIAL_FOLD
    for _ in range(npairs):
        r = rng.random()
        if r < 0.45:
            s = chr(rng.choice(bases)) + chr(rng.choice(mk))
        elif r < 0.8:
            s = chr(rng.choice(bases)) + chr(rng.choice(mk)) + chr(rng.choice(mk))
        elif r < 0.9:
            s = chr(rng.choice(mk)) + chr(rng.choice(mk))
        else:
            s = ''.join(chr(rng.choice(bases + mk[:200] + SPECIAL_FOLD)) for _ in range(rng.randint(2, 12)))
        check_equiv(ctx, L, icu, s, 'pairs')
        ctx.count('pair_strings')
        # prefix lengths through srclen (cut only at code point boundaries)
        if rng.random() < 0.2 and len(s) > 1:
            k = rng.randint(1, len(s) - 1)
            units = len(s[:k].encode('utf-16-le')) // 2
            rc, n = L.normalize(s + 'TAIL', units)
            if rc != CIF_OK or n != icu.cif_norm(s[:k]):
                ctx.violation('norm:srclen', 'cif_normalize(%s, %d) = %s, expected the normal form of the %d-unit prefix %s'
                              % (cps(s + 'TAIL'), units, cps(n or ''), units, cps(icu.cif_norm(s[:k]))), dict(string=cps(s)))
            ctx.count('srclen_cases')


COMPAT_LOOKALIKES = {ord('a'): '\uff41', ord('b'): '\uff42', ord('c'): '\u217d', ord('x'): '\u02e3', ord('y'): '\u02b8', ord('z'): '\uff5a',
                     ord('A'): '\uff21', ord('B'): '\u212c', ord('C'): '\u2102', ord('X'): '\u2169', ord('Z'): '\u2124',
                     0x1c6: 'd\u017e', 0x3a9: '\u2126', 0xc5: '\u212b', 0x3c3: '\u03f2'}
COMPAT_TAILS = [('\ufb01', 'fi'), ('\u00b2', '2'), ('\u2460', '1'), ('\u00b5', '\u03bc'), ('\uff76', '\u30ab'), ('\u1e9b', '\u1e61'), ('\u0132', 'IJ')]


def spelling_pool(ctx, rng, icu):
    """a logical name plus spellings that may or may not be equivalent to it"""
    mk = ctx._marks
    stem = ''.join(rng.choice('abcxyzÅéößǆσΩ') for _ in range(rng.randint(1, 4)))
    if rng.random() < 0.5:
        stem += chr(rng.choice([0x323, 0x307, 0x301, 0x308, 0x327, 0x345]))
    if rng.random() < 0.3:
        stem += chr(rng.choice(SPECIAL_FOLD[:30]))
    variants = {stem, stem.upper(), stem.lower(), stem.title(), icu.nfd(stem), icu.nfc(stem), icu.nfd(stem.upper()),
                stem.swapcase(), stem + 'x', 'x' + stem, stem.replace('a', 'á') if 'a' in stem else stem + '́',
                icu.nfd(stem)[::-1] if len(stem) < 3 else stem[:-1]}
    # compatibility look-alikes: equivalent only under NFKC / NFKD, which nothing in CIF uses (two of the replacements,
    # U+2126 and U+212B, are canonical singletons and do match) - the oracle decides, as for every other pair
    variants.add(stem.translate(COMPAT_LOOKALIKES))
    variants.add(stem.upper().translate(COMPAT_LOOKALIKES))
    tail = rng.choice(COMPAT_TAILS)
    variants.add(stem + tail[0])
    variants.add(stem + tail[1])
    return stem, [v for v in variants if v]


def run_api(ctx, L, icu, idx, ntriples):
    """create under one spelling, look up / re-create under another"""
    rng = ctx.rng('C09-api', idx)
    rc, cif = L.create()
    try:
        for t in range(ntriples):
            stem, vs = spelling_pool(ctx, rng, icu)
            s = rng.choice(vs)
            u = rng.choice(vs)
            if any(ord(c) <= 0x20 for c in s + u):
                continue
            same = icu.cif_norm(s) == icu.cif_norm(u)
            kind = t % 4
            info = dict(first=cps(s), second=cps(u), same_normal_form=same, kind=['block', 'frame', 'item', 'packet'][kind])
            ctx.count('api_triples')
            if t % 5 == 0:
                # the parser's own duplicate detection (names within one loop header, block codes of one document)
                from .. import parsing
                text = '#\\#CIF_2.0\ndata_b%s\nloop_\n_%s _%s\n1 2\ndata_b%s\n' % (s, s, u, u)
                res = parsing.parse(L, text.encode('utf-8', 'surrogatepass'), parsing.make_opts(), 'new', 'accept')
                codes = sorted(e[0] for e in res.errors)
                if res.cif:
                    L.destroy(res.cif)
                want = [11, 41] if same else []
                if res.rc != CIF_OK or codes != want:
                    ctx.violation('match:parser:duplicates:%s' % ('missed' if same else 'false-hit'),
                                  'document with names / block codes %s and %s (normal forms %s): cif_parse -> %d, errors %r, expected %r' % (cps(s), cps(u), 'equal' if same else 'differ', res.rc, codes, want), info)
                ctx.count('parser_duplicate_cases')
            if kind == 0:
                code1, code2 = 'b' + s, 'b' + u
                rc, h = L.create_block(cif, code1)
                if rc != CIF_OK:
                    ctx.violation('match:block:create:%d' % rc, 'cif_create_block(%s) -> %d' % (cps(code1), rc), info)
                    continue
                rc2, h2 = L.get_block(cif, code2)
                rc3, h3 = L.create_block(cif, code2)
                if h2:
                    L.container_free(h2)
                if (rc2 == CIF_OK) != same:
                    ctx.violation('match:block:lookup:%s' % ('missed' if same else 'false-hit'), 'block created as %s, looked up as %s: rc %d (normal forms %s)' % (cps(code1), cps(code2), rc2, 'equal' if same else 'differ'), info)
                if (rc3 == CIF_DUP_BLOCKCODE) != same or (not same and rc3 != CIF_OK):
                    ctx.violation('match:block:duplicate:%s' % ('missed' if same else 'false-hit'), 'block created as %s, created again as %s: rc %d' % (cps(code1), cps(code2), rc3), info)
                if h3:
                    L.container_destroy(h3)
                L.container_destroy(h)
            elif kind == 1:
                rc, b = L.create_block(cif, 'host%d' % t)
                rc, f = L.create_frame(b, 'f' + s)
                if rc != CIF_OK:
                    ctx.violation('match:frame:create:%d' % rc, 'create_frame(%s) -> %d' % (cps('f' + s), rc), info)
                    L.container_destroy(b)
                    continue
                rc2, f2 = L.get_frame(b, 'f' + u)
                rc3, f3 = L.create_frame(b, 'f' + u, False)
                if f2:
                    L.container_free(f2)
                if (rc2 == CIF_OK) != same:
                    ctx.violation('match:frame:lookup:%s' % ('missed' if same else 'false-hit'), 'frame %s looked up as %s: rc %d' % (cps(s), cps(u), rc2), info)
                if (rc3 == CIF_DUP_FRAMECODE) != same or (not same and rc3 != CIF_OK):
                    ctx.violation('match:frame:duplicate:%s' % ('missed' if same else 'false-hit'), 'frame %s created again as %s: rc %d' % (cps(s), cps(u), rc3), info)
                L.container_free(f)
                L.container_destroy(b)
            elif kind == 2:
                rc, b = L.create_block(cif, 'host%d' % t)
                v = L.make_value(('char', 'v', True))
                rc = L.set_value(b, '_' + s, v)
                if rc != CIF_OK:
                    ctx.violation('match:item:create:%d' % rc, 'set_value(%s) -> %d' % (cps('_' + s), rc), info)
                else:
                    rc2, got = L.get_value(b, '_' + u)
                    if got:
                        L.value_free(got)
                    rc3, lp = L.create_loop(b, None, ['_' + u], False)
                    rc4, lh = L.get_item_loop(b, '_' + u)
                    if lh:
                        L.loop_free(lh)
                    if (rc2 == CIF_OK) != same or (not same and rc2 != CIF_NOSUCH_ITEM):
                        ctx.violation('match:item:lookup:%s' % ('missed' if same else 'false-hit'), 'item %s looked up as %s: rc %d' % (cps(s), cps(u), rc2), info)
                    if (rc3 == CIF_DUP_ITEMNAME) != same or (not same and rc3 != CIF_OK):
                        ctx.violation('match:item:duplicate:%s' % ('missed' if same else 'false-hit'), 'item %s, loop created with %s: rc %d' % (cps(s), cps(u), rc3), info)
                L.value_free(v)
                L.container_destroy(b)
            else:
                rc, p = L.packet_create(['_' + s])
                if rc != CIF_OK:
                    ctx.violation('match:packet:create:%d' % rc, 'packet_create(%s) -> %d' % (cps('_' + s), rc), info)
                    continue
                rc2, e = L.packet_get(p, '_' + u)
                if (rc2 == CIF_OK) != same:
                    ctx.violation('match:packet:lookup:%s' % ('missed' if same else 'false-hit'), 'packet item %s looked up as %s: rc %d' % (cps(s), cps(u), rc2), info)
                v = L.make_value(('na',))
                rc3 = L.packet_set(p, '_' + u, v)
                L.value_free(v)
                rcn, names = L.packet_names(p)
                if rc3 != CIF_OK or len(names) != (1 if same else 2):
                    ctx.violation('match:packet:set:%s' % ('missed' if same else 'false-hit'), 'packet with %s, set %s: rc %d, names now %r' % (cps(s), cps(u), rc3, [cps(n) for n in names]), info)
                L.packet_free(p)
                # a loop whose item was declared under one spelling takes packets, and updates through an iterator,
                # that name it under another - or refuses them with CIF_WRONG_LOOP when the names differ
                rc, b = L.create_block(cif, 'lhost%d' % t)
                rc, lp = L.create_loop(b, None, ['_' + s, '_other'])
                if rc != CIF_OK:
                    ctx.violation('match:loop:create:%d' % rc, 'create_loop(%s) -> %d' % (cps('_' + s), rc), info)
                else:
                    v1 = L.make_value(('char', 'first', True))
                    v2 = L.make_value(('char', 'second', True))
                    rc, p = L.packet_create(['_' + u])
                    L.packet_set(p, '_' + u, v1)
                    rca = L.loop_add_packet(lp, p)
                    if (rca == CIF_OK) != same or (not same and rca != CIF_WRONG_LOOP):
                        ctx.violation('match:loop:add_packet:%s' % ('missed' if same else 'false-hit'), 'loop of %s, packet naming %s: add_packet -> %d' % (cps(s), cps(u), rca), info)
                    if rca != CIF_OK:
                        rc, p0 = L.packet_create(['_' + s])
                        L.packet_set(p0, '_' + s, v1)
                        L.loop_add_packet(lp, p0)
                        L.packet_free(p0)
                    rci, it = L.loop_get_packets(lp)
                    if rci == CIF_OK:
                        rcn, pk = L.it_next(it, 'new')
                        if pk:
                            L.packet_free(pk)
                        L.packet_set(p, '_' + u, v2)
                        rcu = L.it_update(it, p)
                        rcc = L.it_close(it)
                        rcg, got = L.get_value(b, '_' + s)
                        val = L.read_value(got) if got else None
                        if got:
                            L.value_free(got)
                        ctx.count('iterator_update_cases')
                        if (rcu == CIF_OK) != same or (not same and rcu != CIF_WRONG_LOOP) or rcn != CIF_OK or rcc != CIF_OK:
                            ctx.violation('match:pktitr:update:%s' % ('missed' if same else 'false-hit'), 'loop of %s, update with a packet naming %s: next %d, update %d, close %d' % (cps(s), cps(u), rcn, rcu, rcc), info)
                        elif val is None or val[1] != ('second' if same else 'first'):
                            ctx.violation('match:pktitr:update:value', 'loop of %s updated under %s (rc %d): the item now reads %r' % (cps(s), cps(u), rcu, val), info)
                    else:
                        ctx.violation('match:loop:get_packets:%d' % rci, 'cif_loop_get_packets -> %d' % rci, info)
                    L.packet_free(p)
                    L.value_free(v1)
                    L.value_free(v2)
                    L.loop_free(lp)
                L.container_destroy(b)
            # (c) table keys: canonical equivalence only
            if t % 3 == 0:
                k1, k2 = s, u
                eq = icu.nfc(k1) == icu.nfc(k2)
                rc, tb = L.value_create(KIND_TABLE)
                a = L.make_value(('char', 'first', True))
                b2 = L.make_value(('char', 'second', True))
                L.call('cif_value_set_item_by_key', tb, U(k1), a)
                rc2, e = L.table_get(tb, k2)
                if (rc2 == CIF_OK) != eq:
                    ctx.violation('match:table:lookup:%s' % ('missed' if eq else 'false-hit'), 'table key %s looked up as %s: rc %d (NFC %s)' % (cps(k1), cps(k2), rc2, 'equal' if eq else 'differ'), info)
                L.call('cif_value_set_item_by_key', tb, U(k2), b2)
                rc3, keys = L.table_keys(tb)
                want = [k2] if eq else sorted([k1, k2])
                if sorted(keys) != sorted(want):
                    ctx.violation('match:table:keys:%s' % ('spelling' if eq else 'count'), 'table keys after setting %s then %s: %r, expected %r' % (cps(k1), cps(k2), [cps(k) for k in keys], [cps(k) for k in want]), info)
                # the spelling travels with the table: a copy (explicit, or made by storing the table in a list)
                # enumerates and matches its keys exactly as the original does
                rc4, cl = L.value_clone(tb)
                rc5, lst = L.value_create(KIND_LIST)
                L.call('cif_value_insert_element_at', lst, 0, tb)
                rc6, inner = L.list_get(lst, 0)
                # ... and with the table through the managed CIF: stored as an item value and read back
                rc7, hb = L.create_block(cif, 'tbl%d' % t)
                rc8 = L.set_value(hb, '_tbl', tb)
                rc9, back = L.get_value(hb, '_tbl')
                copies = [('clone', cl), ('copy stored in a list', inner)]
                if rc8 == CIF_OK and rc9 == CIF_OK and back:
                    copies.append(('copy stored in a CIF and read back', back))
                else:
                    ctx.violation('match:table:store:%d/%d' % (rc8, rc9), 'storing a table with key %s in a CIF -> %d, reading it back -> %d' % (cps(k2), rc8, rc9), info)
                for what, cp in copies:
                    rck, ckeys = L.table_keys(cp)
                    if sorted(ckeys) != sorted(want):
                        ctx.violation('match:table:keys:copy-spelling', 'keys of a %s of the table: %r, the table\'s own %r' % (what, [cps(k) for k in ckeys], [cps(k) for k in want]), info)
                    rcg, e = L.table_get(cp, k1)
                    if rcg != CIF_OK:
                        ctx.violation('match:table:lookup:copy-missed', 'key %s is not found in a %s of the table (rc %d)' % (cps(k1), what, rcg), info)
                if back:
                    L.value_free(back)
                L.container_destroy(hb)
                L.value_free(cl)
                L.value_free(lst)
                L.value_free(a)
                L.value_free(b2)
                L.value_free(tb)
                ctx.count('table_key_cases')
    finally:
        L.destroy(cif)


BAD_POINTS = [0x00, 0x01, 0x08, 0x09, 0x0a, 0x0b, 0x0c, 0x0d, 0x1f, 0x20, 0x7f, 0xfdd0, 0xfdef, 0xfffe, 0xffff, 0x1fffe,
              0x1ffff, 0x10fffe, 0x10ffff, 0xd800, 0xdbff, 0xdc00, 0xdfff]
GOOD_POINTS = [0x21, 0x7e, 0xa0, 0xfdcf, 0xfdf0, 0xfffd, 0xfffc, 0x10000, 0x1fffd, 0x10fffd, 0xe000, 0xfeff, 0x2028, 0x3000]


def run_validity(ctx, L):
    rc, cif = L.create()
    rc, b = L.create_block(cif, 'v')
    try:
        def name_case(name, want_valid, why):
            ctx.count('validity_cases')
            v = L.make_value(('unk',))
            rc = L.set_value(b, name, v)
            L.value_free(v)
            if rc == CIF_OK:
                L.remove_item(b, name)
            ok = rc == CIF_OK
            if ok != want_valid or (not want_valid and rc != CIF_INVALID_ITEMNAME):
                ctx.violation('valid:name:%s' % ('refused' if want_valid else ('accepted' if ok else 'wrong-code')),
                              'data name %s (%s): set_value -> %d' % (cps(name), why, rc), dict(name=cps(name), why=why))
            rc2, p = L.packet_create([name])
            if p:
                L.packet_free(p)
            if (rc2 == CIF_OK) != want_valid or (not want_valid and rc2 != CIF_INVALID_ITEMNAME):
                ctx.violation('valid:packet-name:%s' % ('refused' if want_valid else 'accepted-or-wrong-code'), 'packet_create(%s) (%s) -> %d' % (cps(name), why, rc2), dict(name=cps(name), why=why))

        def code_case(code, want_valid, why):
            ctx.count('validity_cases')
            rc, h = L.create_block(cif, code)
            if h:
                L.container_destroy(h)
            if (rc == CIF_OK) != want_valid or (not want_valid and rc != CIF_INVALID_BLOCKCODE):
                ctx.violation('valid:blockcode:%s' % ('refused' if want_valid else 'accepted-or-wrong-code'), 'block code %s (%s): create_block -> %d' % (cps(code), why, rc), dict(code=cps(code), why=why))
            rc, h = L.create_frame(b, code)
            if h:
                L.container_destroy(h)
            if (rc == CIF_OK) != want_valid or (not want_valid and rc != CIF_INVALID_FRAMECODE):
                ctx.violation('valid:framecode:%s' % ('refused' if want_valid else 'accepted-or-wrong-code'), 'frame code %s (%s): create_frame -> %d' % (cps(code), why, rc), dict(code=cps(code), why=why))
        for cp in BAD_POINTS:
            c = chr(cp)
            if cp == 0:
                continue     # terminates the string
            for pos, nm in (('first', '_' + c + 'ab'), ('middle', '_a' + c + 'b'), ('last', '_ab' + c)):
                name_case(nm, False, 'U+%04X %s' % (cp, pos))
            for pos, cd in (('first', c + 'ab'), ('middle', 'a' + c + 'b'), ('last', 'ab' + c)):
                code_case(cd, False, 'U+%04X %s' % (cp, pos))
        for cp in GOOD_POINTS:
            c = chr(cp)
            name_case('_a' + c + 'b', True, 'U+%04X allowed' % cp)
            code_case('a' + c + 'b', True, 'U+%04X allowed' % cp)
        # a properly paired surrogate is fine, a swapped pair is not
        name_case('_a😀', True, 'surrogate pair')
        name_case('_a\ude00\ud83d', False, 'swapped surrogates')
        # shape and length
        name_case('_', False, 'underscore only')
        name_case('', False, 'empty')
        name_case('a', False, 'no underscore')
        name_case('__', True, 'two underscores')
        name_case('_' + 'x' * 2047, True, '2048 characters')
        name_case('_' + 'x' * 2048, False, '2049 characters')
        name_case('_' + '\U0001f600' * 2047, True, '2048 supplementary characters')
        name_case('_' + '\U0001f600' * 2048, False, '2049 supplementary characters')
        code_case('', False, 'empty')
        code_case('c' * 2043, True, '2043 characters')
        code_case('c' * 2044, False, '2044 characters')
        code_case('\U0001f600' * 2043, True, '2043 supplementary characters')
        code_case('_', True, 'underscore')
    finally:
        L.container_free(b)
        L.destroy(cif)


PARSER_CODES = [('anonymous', None), ('overlong', 'Lq' * 1100), ('overlong-supplementary', 'Z\U00010400' * 1030),
                ('disallowed-character', 'Bad\ufdd0Code'), ('disallowed-control', 'Ctl\x01Code')]


def run_parser_created(ctx, L, icu):
    """blocks the tolerant parser creates under codes cif_create_block() refuses (documented recoveries: data before any
    block header go to a block with the empty code; an invalid code is reported and used anyway) are objects created
    under a spelling like any other: they are found under that spelling and its case variants, and by a second parse.
    (U+FFFE / U+FFFF are left out: the storage engine hands them back as U+FFFD, which C12 documents as tolerated.)"""
    from .. import parsing
    for why, code in PARSER_CODES:
        ctx.count('parser_created_code_cases')
        head = '' if code is None else 'data_%s\n' % code
        doc1 = ('#\\#CIF_2.0\n%s_first 1\n' % head).encode('utf-8')
        doc2 = ('#\\#CIF_2.0\n%s_second 2\n' % (head.swapcase() if why.startswith('overlong') else head)).encode('utf-8')
        info = dict(why=why, code=cps(code or '')[:60])
        res = parsing.parse(L, doc1, parsing.make_opts(), 'new', 'accept')
        cif = res.cif
        if res.rc != CIF_OK or not cif:
            # whether the parser goes on after such a code is C12's business; nothing was created, nothing to match
            ctx.count('parser_created_code_not_created')
            if cif:
                L.destroy(cif)
            continue
        try:
            rc, blocks = L.get_all_blocks(cif)
            spelled = []
            for h in blocks or []:
                rc, c = L.get_code(h)
                spelled.append(c)
                L.container_free(h)
            if len(spelled) != 1:
                ctx.count('parser_created_code_not_created')
                continue
            own = spelled[0]
            for variant in sorted(set([own, own.upper(), own.lower(), icu.nfd(own) if hasattr(icu, 'nfd') else own])):
                if icu.cif_norm(variant) != icu.cif_norm(own):
                    continue
                rc, h = L.get_block(cif, variant)
                if rc != CIF_OK:
                    ctx.violation('match:parser-created-block:lookup:missed', 'the parser created a block with the code %s (%s); cif_get_block(%s) -> %d'
                                  % (cps(own)[:80], why, cps(variant)[:80], rc), info)
                    continue
                rc2, v = L.get_value(h, '_first')
                if v:
                    L.value_free(v)
                L.container_free(h)
                if rc2 != CIF_OK:
                    ctx.violation('match:parser-created-block:lookup:wrong-block', 'the block found for %s does not hold the parsed item: get_value -> %d' % (cps(variant)[:80], rc2), info)
            # the same code again, in a second document parsed into the same CIF: reported as a duplicate, block re-opened
            res2 = parsing.parse(L, doc2, parsing.make_opts(), cif, 'accept')
            codes = [e[0] for e in res2.errors]
            # (data before any header are reported as such each time; nothing says the anonymous block is also a duplicate)
            if res2.rc != CIF_OK or (code is not None and CIF_DUP_BLOCKCODE not in codes):
                ctx.violation('match:parser-created-block:reparse:%s' % ('failed' if res2.rc != CIF_OK else 'not-a-duplicate'),
                              'second document with the block code %s (%s) parsed into the same CIF: cif_parse -> %d, errors %r' % (cps(own)[:80], why, res2.rc, codes[:6]), info)
            else:
                rc, blocks = L.get_all_blocks(cif)
                for h in blocks or []:
                    L.container_free(h)
                if len(blocks or []) != 1:
                    ctx.violation('match:parser-created-block:reparse:second-block', 'after the second document there are %d blocks' % len(blocks or []), info)
        finally:
            L.destroy(cif)


def run_many(ctx, L, icu):
    """matching does not depend on how many other entries there are: tables and packets big enough for their name
    tables to have been rebuilt several times, every key entered in one spelling and looked up in another"""
    n = 600
    nfd = ['k%03d_e\u0301\u0323' % i for i in range(n)]           # as entered (decomposed, marks not in canonical order)
    nfc = [icu.nfc(k) for k in nfd]
    rc, tb = L.value_create(KIND_TABLE)
    v = L.make_value(('char', 'v', True))
    try:
        for k in nfd:
            L.call('cif_value_set_item_by_key', tb, U(k), v)
        missed = [k for k in nfc if L.table_get(tb, k)[0] != CIF_OK]
        missed_own = [k for k in nfd if L.table_get(tb, k)[0] != CIF_OK]
        if missed or missed_own:
            ctx.violation('match:table:lookup:missed-in-big-table', 'a table of %d keys entered decomposed: %d are not found under the composed spelling, %d not under their own (first %s)'
                          % (n, len(missed), len(missed_own), cps((missed or missed_own)[0])), dict(keys=n))
        for k in nfc:
            L.call('cif_value_set_item_by_key', tb, U(k), v)
        rc, keys = L.table_keys(tb)
        if sorted(keys) != sorted(nfc):
            ctx.violation('match:table:keys:big-table', 'after re-entering the %d keys composed the table enumerates %d keys, %d of them not in the spelling used last'
                          % (n, len(keys), len(set(keys) - set(nfc))), dict(keys=n))
        ctx.count('big_table_keys', n)
    finally:
        L.value_free(tb)
    names = ['_Item_%03d_\u00c9' % i for i in range(n)]
    rc, pk = L.packet_create(names)
    try:
        missed = [nm for nm in names if L.packet_get(pk, icu.nfd(nm.lower()))[0] != CIF_OK]
        for nm in names:
            L.packet_set(pk, nm.upper(), v)
        rc, got = L.packet_names(pk)
        if missed or len(got) != n:
            ctx.violation('match:packet:lookup:missed-in-big-packet', 'a packet of %d names: %d are not found under a lower-case decomposed spelling; after setting each under an upper-case spelling it lists %d names'
                          % (n, len(missed), len(got)), dict(names=n))
        ctx.count('big_packet_names', n)
    finally:
        L.packet_free(pk)
        L.value_free(v)


def worker(ctx):
    L = ctx.L
    icu = ICUmod.get()
    ctx._marks = marks(icu)
    ctx.add('unicode_version', icu.unicode_version)
    nblocks = (0x110000 + BLOCK - 1) // BLOCK
    npair_cases = ctx.params['pair_cases']
    napi = ctx.params['api_cases']
    total = nblocks + npair_cases + napi + 1
    if ctx.params.get('_single') is not None:
        ctx.single = ctx.params['_single']
    scope = LedgerScope(L).__enter__()
    for i in ctx.cases(total):
        ctx.begin(i)
        if i < nblocks:
            sweep_scalars(ctx, L, icu, i * BLOCK)
        elif i < nblocks + npair_cases:
            run_pairs(ctx, L, icu, i, ctx.params['pairs_per_case'])
        elif i < nblocks + npair_cases + napi:
            run_api(ctx, L, icu, i, ctx.params['triples_per_case'])
        else:
            run_validity(ctx, L)
            run_parser_created(ctx, L, icu)
            run_many(ctx, L, icu)
        ctx.count('cases')
        ctx.drain_events(dict(index=i))
    for suffix, detail in scope.finish():
        ctx.violation(suffix, detail, dict(index=-1))
    ctx.sample(dict(marks=len(ctx._marks), unicode=icu.unicode_version), 1)


def run(env):
    q = env.quick
    params = dict(pair_cases=100 if q else 2000, pairs_per_case=1000, api_cases=64 if q else 1280, triples_per_case=160)
    res = env.run_pool(MODULE, params, nshards=16, case_timeout=300, total_timeout=3000 if q else 30000)
    total = (0x110000 + BLOCK - 1) // BLOCK + params['pair_cases'] + params['api_cases'] + 1
    inconclusive = list(res.inconclusive)
    if res.count('cases') < total and not res.violations:
        inconclusive.append('only %d of %d cases ran' % (res.count('cases'), total))
    if res.count('scalars') < 0x110000 - 2049 and not res.violations:
        inconclusive.append('scalar sweep incomplete: %d' % res.count('scalars'))
    return dict(
        level='exploration',
        coverage=dict(
            evaluations=res.count('scalars') + res.count('pair_strings') + res.count('api_triples') + res.count('validity_cases'),
            distinct_nontrivial=res.count('scalars') + res.count('equivalence_classes'),
            rule='evaluations = scalar values normalised (exhaustive, each distinct) + mark-pair / random strings + API '
                 'create/lookup/duplicate triples + validity cases; non-trivial = scalar values plus multi-character '
                 'strings for which the library agreed with the independent ICU path, was idempotent and gave one result '
                 'for the NFC / NFD spellings',
            samples=res.samples, scalar_sweep_exhaustive=True, scalar_values=res.count('scalars'),
            normalizations=res.count('normalizations'), pair_strings=res.count('pair_strings'),
            srclen_cases=res.count('srclen_cases'), api_triples=res.count('api_triples'),
            table_key_cases=res.count('table_key_cases'), loop_and_iterator_update_cases=res.count('iterator_update_cases'), parser_duplicate_cases=res.count('parser_duplicate_cases'), validity_cases=res.count('validity_cases'),
            big_table_keys=res.count('big_table_keys'), big_packet_names=res.count('big_packet_names'),
            parser_created_code_cases=res.count('parser_created_code_cases'), parser_created_code_not_created=res.count('parser_created_code_not_created'),
            icu_unicode_version=sorted(res.sets.get('unicode_version', ())), crashes=res.crashes),
        violations=res.violations, inconclusive=inconclusive,
        assumptions=['ICU itself is trusted; the oracle uses unorm2_normalize and ucasemap_utf8FoldCase, the library '
                     'uses unorm_normalize and u_strFoldCase', 'C1 controls U+0080-U+009F in names are not judged'])


def replay(env, rec):
    env.single = (rec.get('case') or {}).get('index')
    return run(env)
