"""C05 - a failed API call leaves the managed CIF unchanged.

Part 1 (systematic): every failing kind named by the property x offending element first / middle / last x list
length 1-5 x {outside any transaction, inside an open packet iterator on another loop that is then closed, ... then
aborted}, each on a fresh fixture CIF, followed by a probe sequence of valid calls that must behave as if the failed
call had never been made.  Part 2 (random): the failing calls that occur in C04-style random histories.
Monitors: result code, full dump == unchanged model after the failing call, no transaction left open, probes."""
from .. import cifmodel as CM
from .. import names as N
from ..cifdriver import Mismatch
from ..lib import *      # noqa: F401,F403
from ..monitors import LedgerScope
from .C04 import History

MODULE = __name__

ANYERR = set(DEFINED_CODES) - {CIF_OK, CIF_FINISHED}
CONTEXTS = ['plain', 'iter-close', 'iter-abort', 'iter-busy-close']
POSITIONS = ['first', 'middle', 'last']

# kinds: (name, list-length-matters)
KINDS = [
    ('create_block_dup', False), ('create_block_invalid', False), ('create_frame_dup', False),
    ('create_frame_invalid', False), ('create_loop_dupname', True), ('create_loop_invalid', True),
    ('create_loop_dup_within', True), ('create_loop_null', False), ('create_loop_reserved', False),
    ('add_item_dup', False), ('add_item_invalid', False), ('set_value_invalid', False),
    ('add_packet_foreign', True), ('add_packet_empty', False), ('add_packet_second_scalar', False),
    # a packet refused by a scalar loop that holds no packet yet (block b2: the loop is created for the purpose)
    ('add_packet_unknown_empty_scalars', True),
    # a new scalar for a block whose scalar loop lost its only packet with its last stored value: the call is refused
    # (the recorded C04 finding); whatever the reason, a refused call must not leave the item behind
    ('set_value_refused_by_spent_scalar_loop', False),
    ('set_category_empty', False), ('set_category_of_scalar', False), ('set_category_of_scalar_null', False),
    ('remove_item_missing', False), ('stale_get_packets', False), ('stale_destroy', False),
    ('stale_set_category', False), ('stale_add_packet', False), ('stale_add_item', False),
    ('get_frame_invalid', False), ('loop_destroy_twice', False),
    # failing steps of a packet iterator, followed by close (which commits whatever the step left behind)
    ('itr_update_foreign', True), ('itr_update_before_next', False), ('itr_remove_before_next', False),
    ('itr_update_after_remove', False),
]


def all_cases():
    cases = []
    for kind, listy in KINDS:
        for ctxname in CONTEXTS:
            if kind.startswith('itr_') and ctxname != 'plain':
                continue        # the failing call is itself an iterator step: no second, enclosing iterator
            if listy:
                for n in (1, 2, 3, 5):
                    for pos in POSITIONS:
                        if n == 1 and pos != 'first':
                            continue
                        if n == 2 and pos == 'middle':
                            continue
                        cases.append((kind, ctxname, n, pos))
            else:
                cases.append((kind, ctxname, 1, 'first'))
    return cases


FRESH = ['_n1', '_n2', '_n3', '_n4', '_n5', '_n6']


def position_index(n, pos):
    return 0 if pos == 'first' else (n - 1 if pos == 'last' else n // 2)


class Sys(History):
    def build_fixture(self, variant_no):
        """block b: scalars _s1 _s2; loop 'ca' (_a1.._a5) x2 packets; loop None (_b1 _b2) x1; frame f with _a1;
        block b2 empty.  All through model-checked driver operations."""
        L = self.L
        ci = self.new_cif()
        p, m = self.cifs[ci]
        self.ci = ci

        def ok(rc, what):
            if rc != CIF_OK:
                raise Mismatch('fixture:%s:%d' % (what, rc), 'building the fixture: %s -> %d' % (what, rc))
        rcs, commit = CM.op_create_block(m, 'b')
        rc, bh = L.create_block(p, 'b')
        ok(rc, 'create_block')
        self.b = commit()
        rcs, commit = CM.op_create_block(m, 'b2')
        rc, h2 = L.create_block(p, 'b2')
        ok(rc, 'create_block')
        self.b2 = commit()
        self.b2h = h2
        self.le = None
        for nm, tx in (('_s1', 'one'), ('_s2', 'two')):
            pv = ('char', tx, True)
            rcs, commit = CM.op_set_value(self.b, nm, pv)
            v = self.mk(pv)
            ok(L.set_value(bh, nm, v), 'set_value')
            L.value_free(v)
            commit()
        anames = ['_a1', '_a2', '_a3', '_a4', '_a5']
        rcs, commit = CM.op_create_loop(self.b, 'ca', anames)
        rc, lh = L.create_loop(bh, 'ca', anames)
        ok(rc, 'create_loop')
        self.la = commit()
        for k in range(2):
            items = [(n, ('char', 'a%d%s' % (k, n), True)) for n in anames]
            self.add_packet_checked(lh, self.b, self.la, items)
        L.loop_free(lh)
        bnames = ['_b1', '_b2']
        rcs, commit = CM.op_create_loop(self.b, None, bnames)
        rc, lh = L.create_loop(bh, None, bnames)
        ok(rc, 'create_loop')
        self.lb = commit()
        self.add_packet_checked(lh, self.b, self.lb, [(n, ('numb', '1.5(2)', False)) for n in bnames])
        if variant_no % 3 == 1:
            self.add_packet_checked(lh, self.b, self.lb, [(n, ('unk',)) for n in bnames])
        L.loop_free(lh)
        rcs, commit = CM.op_create_frame(self.b, 'f')
        rc, fh = L.create_frame(bh, 'f')
        ok(rc, 'create_frame')
        self.f = commit()
        pv = ('list', (('char', 'x', False), ('na',)))
        rcs, commit = CM.op_set_value(self.f, '_a1', pv)
        v = self.mk(pv)
        ok(L.set_value(fh, '_a1', v), 'set_value(frame)')
        L.value_free(v)
        commit()
        L.container_free(fh)
        if variant_no % 3 == 2:
            # nested frame and a second scalar-free block
            rc, fh = L.get_frame(bh, 'F')
            ok(rc, 'get_frame')
            rcs, commit = CM.op_create_frame(self.f, 'g')
            rc, gh = L.create_frame(fh, 'g')
            ok(rc, 'create_frame(nested)')
            commit()
            L.container_free(gh)
            L.container_free(fh)
        self.bh = bh
        self.check_state(ci, 'fixture', 'fixture')

    def add_packet_checked(self, lh, cont, ml, items):
        L = self.L
        rcs, commit = CM.op_add_packet(cont, ml, items)
        rc, pk = L.packet_create([n for n, _ in items])
        for n, pv in items:
            v = self.mk(pv)
            L.packet_set(pk, n, v)
            L.value_free(v)
        rc = L.loop_add_packet(lh, pk)
        L.packet_free(pk)
        if rc != CIF_OK or not commit:
            raise Mismatch('fixture:add_packet:%d' % rc, 'fixture add_packet -> %d' % rc)
        commit()

    def loop_handle(self, name):
        rc, lh = self.L.get_item_loop(self.bh, name)
        if rc != CIF_OK:
            raise Mismatch('fixture:get_item_loop:%d' % rc, 'lookup of %s -> %d' % (name, rc))
        return lh

    def name_list(self, n, pos, bad):
        names = FRESH[:n]
        names[position_index(n, pos)] = bad
        return names

    def prepare(self, kind):
        """state the failing call needs, made before any enclosing iterator opens its transaction"""
        L = self.L
        if kind == 'add_packet_unknown_empty_scalars':
            enames = ['_e1', '_e2', '_e3', '_e4', '_e5']
            rcs, commit = CM.op_create_loop(self.b2, '', enames)
            rc, lh = L.create_loop(self.b2h, '', enames)
            if rc != CIF_OK or not commit:
                raise Mismatch('fixture:create_loop(scalars):%d' % rc, 'creating the scalar loop of the empty block -> %d' % rc)
            self.le = commit()
            self.leh = lh
            self.check_state(self.ci, 'fixture', 'fixture(scalars of b2)')
        if kind == 'set_value_refused_by_spent_scalar_loop':
            enames = ['_e1', '_e2']
            rcs, commit = CM.op_create_loop(self.b2, '', enames)
            rc, lh = L.create_loop(self.b2h, '', enames)
            if rc != CIF_OK or not commit:
                raise Mismatch('fixture:create_loop(scalars):%d' % rc, 'creating the scalar loop of the empty block -> %d' % rc)
            ml = commit()
            self.add_packet_checked(lh, self.b2, ml, [('_e1', ('char', 'only value', True))])
            L.loop_free(lh)
            rcs, commit = CM.op_remove_item(self.b2, '_e1')
            rc = L.remove_item(self.b2h, '_e1')
            if rc != CIF_OK or not commit:
                raise Mismatch('fixture:remove_item:%d' % rc, 'removing the only valued scalar -> %d' % rc)
            commit()
            self.check_state(self.ci, 'fixture', 'fixture(spent scalar loop of b2)')

    def failing_call(self, kind, n, pos, in_tx):
        """performs the failing call; returns (label, rc, acceptable rcs when not in a transaction)"""
        L = self.L
        p, m = self.cifs[self.ci]
        if kind == 'create_block_dup':
            return 'cif_create_block', L.create_block(p, 'B', False)[0], {CIF_DUP_BLOCKCODE}
        if kind == 'create_block_invalid':
            return 'cif_create_block', L.create_block(p, 'a b', False)[0], {CIF_INVALID_BLOCKCODE}
        if kind == 'create_frame_dup':
            return 'cif_container_create_frame', L.create_frame(self.bh, 'F', False)[0], {CIF_DUP_FRAMECODE}
        if kind == 'create_frame_invalid':
            return 'cif_container_create_frame', L.create_frame(self.bh, '', False)[0], {CIF_INVALID_FRAMECODE}
        if kind == 'create_loop_dupname':
            names = self.name_list(n, pos, '_A3')
            return 'cif_container_create_loop', L.create_loop(self.bh, 'cx', names, False)[0], {CIF_DUP_ITEMNAME}
        if kind == 'create_loop_invalid':
            names = self.name_list(n, pos, '_bad name')
            return 'cif_container_create_loop', L.create_loop(self.bh, None, names, False)[0], {CIF_INVALID_ITEMNAME}
        if kind == 'create_loop_dup_within':
            names = FRESH[:max(n, 2)]
            i = position_index(len(names), pos)
            j = (i + 1) % len(names)
            names[i] = names[j].upper()
            return 'cif_container_create_loop', L.create_loop(self.bh, 'cy', names, False)[0], {CIF_DUP_ITEMNAME}
        if kind == 'create_loop_null':
            return 'cif_container_create_loop', L.create_loop(self.bh, 'cz', [], False)[0], {CIF_NULL_LOOP}
        if kind == 'create_loop_reserved':
            return 'cif_container_create_loop', L.create_loop(self.bh, '', ['_n1'], False)[0], {CIF_RESERVED_LOOP}
        if kind in ('add_item_dup', 'add_item_invalid'):
            lh = self.loop_handle('_a1')
            rc = L.loop_add_item(lh, '_S2' if kind == 'add_item_dup' else 'nounderscore', None)
            L.loop_free(lh)
            return 'cif_loop_add_item', rc, ({CIF_DUP_ITEMNAME} if kind == 'add_item_dup' else {CIF_INVALID_ITEMNAME})
        if kind == 'set_value_invalid':
            v = self.mk(('char', 'v', True))
            rc = L.set_value(self.bh, '_', v)
            L.value_free(v)
            return 'cif_container_set_value', rc, {CIF_INVALID_ITEMNAME}
        if kind == 'add_packet_foreign':
            lh = self.loop_handle('_a2')
            names = ['_a1', '_a2', '_a3', '_a4', '_a5'][:n]
            names[position_index(n, pos)] = '_b1'
            rc, pk = L.packet_create(names)
            for nm in names:
                v = self.mk(('char', 'new', True))
                L.packet_set(pk, nm, v)
                L.value_free(v)
            rc = L.loop_add_packet(lh, pk)
            L.packet_free(pk)
            L.loop_free(lh)
            return 'cif_loop_add_packet', rc, {CIF_WRONG_LOOP}
        if kind == 'set_value_refused_by_spent_scalar_loop':
            v = self.mk(('char', 'new scalar', True))
            rc = L.set_value(self.b2h, '_e3', v)
            L.value_free(v)
            if rc == CIF_OK:
                # the library no longer refuses this (the finding is repaired): there is no failing call to judge
                rcs, commit = CM.op_set_value(self.b2, '_e3', ('char', 'new scalar', True))
                commit()
                return 'cif_container_set_value', None, set()
            return 'cif_container_set_value', rc, ANYERR
        if kind == 'add_packet_unknown_empty_scalars':
            enames = [n for n, _ in self.le.names]
            lh = self.leh
            names = enames[:n]
            names[position_index(n, pos)] = '_zz'
            rc, pk = L.packet_create(names)
            for nm in names:
                v = self.mk(('char', 'refused', True))
                L.packet_set(pk, nm, v)
                L.value_free(v)
            rc = L.loop_add_packet(lh, pk)
            L.packet_free(pk)
            return 'cif_loop_add_packet', rc, {CIF_WRONG_LOOP}
        if kind.startswith('itr_'):
            lh = self.loop_handle('_a1')
            rc, it = L.loop_get_packets(lh)
            if rc != CIF_OK:
                raise Mismatch('fixture:get_packets:%d' % rc, 'cannot open the iterator: %d' % rc)
            try:
                if kind == 'itr_update_foreign':
                    L.it_next(it, 'null')
                    names = ['_a1', '_a2', '_a3', '_a4', '_a5'][:n]
                    names[position_index(n, pos)] = '_b1'
                    rc, pk = L.packet_create(names)
                    for nm in names:
                        v = self.mk(('char', 'overwritten', True))
                        L.packet_set(pk, nm, v)
                        L.value_free(v)
                    rc = L.it_update(it, pk)
                    L.packet_free(pk)
                    out = ('cif_pktitr_update_packet', rc, {CIF_WRONG_LOOP})
                elif kind == 'itr_update_before_next':
                    rc, pk = L.packet_create(['_a1'])
                    rc = L.it_update(it, pk)
                    L.packet_free(pk)
                    out = ('cif_pktitr_update_packet', rc, {CIF_MISUSE})
                elif kind == 'itr_remove_before_next':
                    out = ('cif_pktitr_remove_packet', L.it_remove(it), {CIF_MISUSE})
                else:
                    # the removal itself succeeds and is then reverted by the abort below; the update that follows it fails
                    L.it_next(it, 'null')
                    rc0 = L.it_remove(it)
                    rc, pk = L.packet_create(['_a1'])
                    rc = L.it_update(it, pk)
                    L.packet_free(pk)
                    out = ('cif_pktitr_update_packet', rc if rc0 == CIF_OK else -rc0, {CIF_MISUSE})
            finally:
                rc2 = L.it_abort(it) if kind == 'itr_update_after_remove' else L.it_close(it)
                L.loop_free(lh)
            if rc2 != CIF_OK:
                raise Mismatch('model:cif_pktitr_close:0:%d:after-%s' % (rc2, kind), 'finishing the iterator -> %d' % rc2)
            return out
        if kind == 'add_packet_empty':
            lh = self.loop_handle('_a2')
            rc, pk = L.packet_create([])
            rc = L.loop_add_packet(lh, pk)
            L.packet_free(pk)
            L.loop_free(lh)
            return 'cif_loop_add_packet', rc, {CIF_INVALID_PACKET}
        if kind == 'add_packet_second_scalar':
            lh = self.loop_handle('_s1')
            rc, pk = L.packet_create(['_s1', '_s2'])
            rc = L.loop_add_packet(lh, pk)
            L.packet_free(pk)
            L.loop_free(lh)
            return 'cif_loop_add_packet', rc, {CIF_RESERVED_LOOP}
        if kind == 'set_category_empty':
            lh = self.loop_handle('_a1')
            rc = L.loop_set_category(lh, '')
            L.loop_free(lh)
            return 'cif_loop_set_category', rc, {CIF_RESERVED_LOOP}
        if kind in ('set_category_of_scalar', 'set_category_of_scalar_null'):
            lh = self.loop_handle('_s1')
            rc = L.loop_set_category(lh, 'mine' if kind == 'set_category_of_scalar' else None)
            L.loop_free(lh)
            return 'cif_loop_set_category', rc, {CIF_RESERVED_LOOP}
        if kind == 'remove_item_missing':
            return 'cif_container_remove_item', L.remove_item(self.bh, '_nothere'), {CIF_NOSUCH_ITEM}
        if kind == 'get_frame_invalid':
            return 'cif_container_get_frame', L.get_frame(self.bh, 'a b', False)[0], {CIF_NOSUCH_FRAME, CIF_INVALID_FRAMECODE}
        if kind.startswith('stale_') or kind == 'loop_destroy_twice':
            # loop of _b1/_b2 is destroyed through one handle, then used through another
            # (when an iterator is open, it iterates loop 'ca', so another victim is used: a fresh loop)
            rc, vl = L.create_loop(self.bh, 'victim', ['_v1', '_v2'])
            if in_tx:
                pass
            if rc != CIF_OK:
                return 'cif_container_create_loop(victim)', rc, {CIF_OK}
            rc, stale = L.get_item_loop(self.bh, '_V1')
            rc = L.loop_destroy(vl)
            if rc != CIF_OK:
                L.loop_free(vl)
                L.loop_free(stale)
                return 'cif_loop_destroy(victim)', rc, {CIF_OK}
            if kind == 'stale_get_packets':
                rc, it = L.loop_get_packets(stale)
                if rc == CIF_OK:
                    L.it_abort(it)
                out = ('cif_loop_get_packets', rc, {CIF_INVALID_HANDLE} if not in_tx else ANYERR)
            elif kind in ('stale_destroy', 'loop_destroy_twice'):
                rc = L.loop_destroy(stale)
                if rc == CIF_OK:
                    stale = None
                out = ('cif_loop_destroy', rc, ANYERR)
            elif kind == 'stale_set_category':
                out = ('cif_loop_set_category', L.loop_set_category(stale, 'zz'), ANYERR)
            elif kind == 'stale_add_packet':
                rc, pk = L.packet_create(['_v1'])
                rc = L.loop_add_packet(stale, pk)
                L.packet_free(pk)
                out = ('cif_loop_add_packet', rc, ANYERR)
            else:
                out = ('cif_loop_add_item', L.loop_add_item(stale, '_v3', None), ANYERR)
            if stale:
                L.loop_free(stale)
            return out
        raise KeyError(kind)

    def probes(self):
        """valid calls after the failure: they must succeed and produce exactly the model's state"""
        L = self.L
        ci = self.ci
        names = ['_n1', '_N2']
        rcs, commit = CM.op_create_loop(self.b, 'probe', names)
        rc, lh = L.create_loop(self.bh, 'probe', names)
        self.after_call(ci, 'probe:cif_container_create_loop', rc, rcs)
        ml = commit()
        items = [('_N1', ('char', 'p1', True)), ('_n2', ('na',))]
        rcs, commit = CM.op_add_packet(self.b, ml, items)
        rc, pk = L.packet_create([n for n, _ in items])
        for n, pv in items:
            v = self.mk(pv)
            L.packet_set(pk, n, v)
            L.value_free(v)
        rc = L.loop_add_packet(lh, pk)
        L.packet_free(pk)
        self.after_call(ci, 'probe:cif_loop_add_packet', rc, rcs)
        commit()
        pv = ('char', 'probe', False)
        rcs, commit = CM.op_set_value(self.b, '_s3', pv)
        v = self.mk(pv)
        rc = L.set_value(self.bh, '_s3', v)
        L.value_free(v)
        self.after_call(ci, 'probe:cif_container_set_value', rc, rcs)
        commit()
        rc, it = L.loop_get_packets(lh)
        self.after_call(ci, 'probe:cif_loop_get_packets', rc, {CIF_OK}, mutating=False) if rc != CIF_OK else None
        rc2, _ = L.it_next(it, 'null')
        rc3 = L.it_close(it)
        if (rc2, rc3) != (CIF_OK, CIF_OK):
            raise Mismatch('model:probe-iterator:0:%d/%d' % (rc2, rc3), 'iterator probe next=%d close=%d' % (rc2, rc3))
        self.check_tx(ci, 'probe:cif_pktitr_close')
        L.loop_free(lh)
        if self.le is not None:
            # the scalar loop that refused a packet takes its one packet now, and the block a further scalar
            items = [(n, ('char', 'e' + n, True)) for n, _ in self.le.names]
            rcs, commit = CM.op_add_packet(self.b2, self.le, items)
            rc, pk = L.packet_create([n for n, _ in items])
            for n, pv in items:
                v = self.mk(pv)
                L.packet_set(pk, n, v)
                L.value_free(v)
            rc = L.loop_add_packet(self.leh, pk)
            L.packet_free(pk)
            self.after_call(ci, 'probe:cif_loop_add_packet(scalars)', rc, rcs)
            commit()
            pv = ('char', 'probe', False)
            rcs, commit = CM.op_set_value(self.b2, '_e6', pv)
            v = self.mk(pv)
            rc = L.set_value(self.b2h, '_e6', v)
            L.value_free(v)
            self.after_call(ci, 'probe:cif_container_set_value(new scalar)', rc, rcs)
            commit()
        self.check_state(ci, 'state-after-probes', 'probe sequence')


def run_sys_case(ctx, idx, case):
    kind, ctxname, n, pos = case
    L = ctx.L
    rng = ctx.rng('C05', idx)
    scope = LedgerScope(L).__enter__()
    h = Sys(L, rng, ctx, prop='C05')
    info = dict(index=idx, kind=kind, context=ctxname, n=n, position=pos)
    try:
        h.build_fixture(idx)
        h.prepare(kind)
        it = None
        lh = None
        if ctxname != 'plain':
            lh = h.loop_handle('_b1') if kind in ('add_packet_foreign', 'add_packet_empty', 'add_item_dup',
                                                  'add_item_invalid', 'set_category_empty') else h.loop_handle('_a1')
            # the iterated loop is never the one the failing call touches
            if kind in ('create_loop_dupname',):
                L.loop_free(lh)
                lh = h.loop_handle('_b1')
            rc, it = L.loop_get_packets(lh)
            if rc != CIF_OK:
                raise Mismatch('fixture:get_packets:%d' % rc, 'cannot open the enclosing iterator: %d' % rc)
            L.it_next(it, 'null')
            if ctxname == 'iter-busy-close':
                # the iterator's transaction already holds work when the failing call comes: successful read-only
                # calls (each runs in a nested transaction of its own inside this one) and an update made through the
                # iterator.  The failing call may undo nothing but itself: the update is there after close.
                rcn, _names = L.loop_get_names(lh)
                rcl, lhs = L.get_all_loops(h.bh)
                for x in lhs or ():
                    L.loop_free(x)
                iterated = h.lb if _names[:1] == ['_b1'] else h.la
                target = iterated.names[1][0]
                pv = ('char', 'made before the failing call %d' % idx, True)
                rcp, upk = L.packet_create([target])
                v = h.mk(pv)
                L.packet_set(upk, target, v)
                L.value_free(v)
                rcu = L.it_update(it, upk)
                L.packet_free(upk)
                if rcn != CIF_OK or rcl != CIF_OK or rcu != CIF_OK:
                    raise Mismatch('fixture:busy-iterator:%d/%d/%d' % (rcn, rcl, rcu), 'work inside the enclosing iterator: get_names %d, get_all_loops %d, update %d' % (rcn, rcl, rcu))
                iterated.packets[0][iterated.names[1][1]] = pv
        label, rc, rcs = h.failing_call(kind, n, pos, it is not None)
        if rc is None:
            ctx.count('cases_whose_call_no_longer_fails')
            if it is not None:
                L.it_close(it)
                L.loop_free(lh)
            return
        ctx.add('op_rc', '%s:%s:%d' % (ctxname, label, rc))
        ctx.add('kinds', '%s/%s' % (kind, ctxname))
        ctx.count('failing_calls')
        if rc == CIF_OK:
            raise Mismatch('model:%s:%s:0:%s' % (label, '|'.join(str(r) for r in sorted(rcs))[:40], kind),
                           '%s succeeded although it had to fail (%s, offending element %s of %d, %s)' % (label, kind, pos, n, ctxname))
        if it is None and rc not in rcs:
            raise Mismatch('model:%s:%s:%d:%s' % (label, '|'.join(str(r) for r in sorted(rcs))[:40], rc, kind),
                           '%s returned %d, documented %s (%s, offending element %s of %d)' % (label, rc, sorted(rcs), kind, pos, n))
        if it is not None:
            t = L.in_transaction(h.cifs[h.ci][0])
            if t != 1:
                raise Mismatch('autocommit:%s:enclosing-transaction-lost' % label,
                               'the failing %s ended the enclosing iterator\'s transaction' % label)
            rc2 = L.it_abort(it) if ctxname == 'iter-abort' else L.it_close(it)
            L.loop_free(lh)
            if rc2 != CIF_OK:
                raise Mismatch('model:cif_pktitr_%s:0:%d:after-%s' % (ctxname[5:], rc2, kind), 'closing the enclosing iterator -> %d' % rc2)
        h.check_tx(h.ci, label)
        h.check_state(h.ci, 'changed-on-failure', '%s=%d[%s,%s]' % (label, rc, kind, ctxname))
        h.probes()
        ctx.count('cases_completed')
    except Mismatch as mm:
        info['recent'] = h.log[-8:]
        ctx.violation(mm.key, mm.detail, info)
    finally:
        try:
            if getattr(h, 'bh', None):
                L.container_free(h.bh)
            if getattr(h, 'b2h', None):
                L.container_free(h.b2h)
            if getattr(h, 'leh', None):
                L.loop_free(h.leh)
            h.destroy_all()
        except Exception:
            pass
    for suffix, detail in scope.finish():
        ctx.violation(suffix, detail, info)
    ctx.drain_events(info)
    ctx.sample(info, 3)


def worker(ctx):
    from . import C04
    cases = all_cases()
    nsys = len(cases)
    nrand = ctx.params['random_histories']
    total = nsys + nrand
    if ctx.params.get('_single') is not None:
        ctx.single = ctx.params['_single']
    for i in ctx.cases(total):
        ctx.begin(i)
        if i < nsys:
            ctx.count('systematic_cases')
            run_sys_case(ctx, i, cases[i])
        else:
            ctx.count('histories')
            C04.run_case(ctx, 1000000 + i, drop_prefixes=('model:',))


def run(env):
    nrand = 600 if env.quick else 40000
    res = env.run_pool(MODULE, dict(random_histories=nrand), nshards=16)
    nsys = len(all_cases())
    inconclusive = list(res.inconclusive)
    if res.count('systematic_cases') < nsys and not res.violations:
        inconclusive.append('only %d of %d systematic cases ran' % (res.count('systematic_cases'), nsys))
    ev = res.count('failing_calls') + res.count('failed_calls')
    return dict(
        level='exploration',
        coverage=dict(
            evaluations=ev, distinct_nontrivial=len(res.sets.get('kinds', ())) + len(res.sets.get('failed_kinds', ())),
            rule='one evaluation = one failing API call followed by a full comparison of the CIF with the unchanged '
                 'model (systematic: kind x position x list length x transaction context, each on a fresh fixture and '
                 'followed by probe calls; random: failing calls inside C04-style histories); distinct = distinct '
                 '(failing kind, context) pairs plus distinct (function, result code) pairs seen failing in the random part',
            samples=res.samples, systematic_cases=res.count('systematic_cases'),
            systematic_cases_completed=res.count('cases_completed'), systematic_space=nsys,
            random_histories=res.count('histories'), random_failed_calls=res.count('failed_calls'),
            random_histories_abandoned_on_result_code_mismatch=res.count('histories_abandoned_on_result_code_mismatch'),
            state_comparisons=res.count('state_comparisons'),
            systematic_function_results=sorted(res.sets.get('op_rc', ()))[:200],
            random_failing_kinds=sorted(res.sets.get('failed_kinds', ())), crashes=res.crashes),
        violations=res.violations, inconclusive=inconclusive,
        assumptions=['inside an open iterator any error code is accepted from the failing call (several functions '
                     'cannot start their own transaction there); unchangedness, the surviving enclosing transaction '
                     'and the probe calls are judged strictly'])


def replay(env, rec):
    env.single = (rec.get('case') or {}).get('index')
    return run(env)
