"""Building managed CIFs from abstract content through the public API, boundary-biased string generation for the
writer checks, and the equivalence relation of the write / re-parse round trip."""
from . import gen_cif as GC
from . import gen_values as G
from . import names as N
from .dump import canon
from .lib import *      # noqa: F401,F403


class BuildError(Exception):
    pass


def build_container(L, handle, blk):
    for e in blk['entries']:
        if e[0] == 'item':
            v = L.make_value(e[2])
            rc = L.set_value(handle, e[1], v)
            L.value_free(v)
            if rc != CIF_OK:
                raise BuildError('set_value(%r) -> %d' % (e[1][:30], rc))
        elif e[0] == 'loop':
            rc, lh = L.create_loop(handle, e[3] if len(e) > 3 else None, e[1])
            if rc != CIF_OK:
                raise BuildError('create_loop -> %d' % rc)
            try:
                for p in e[2]:
                    rc, pk = L.packet_create(e[1])
                    if rc != CIF_OK:
                        raise BuildError('packet_create -> %d' % rc)
                    try:
                        for n, pv in zip(e[1], p):
                            v = L.make_value(pv)
                            rc = L.packet_set(pk, n, v)
                            L.value_free(v)
                            if rc != CIF_OK:
                                raise BuildError('packet_set -> %d' % rc)
                        rc = L.loop_add_packet(lh, pk)
                        if rc != CIF_OK:
                            raise BuildError('add_packet -> %d' % rc)
                    finally:
                        L.packet_free(pk)
            finally:
                L.loop_free(lh)
        else:
            rc, fh = L.create_frame(handle, e[1]['code'])
            if rc != CIF_OK:
                raise BuildError('create_frame(%r) -> %d' % (e[1]['code'][:30], rc))
            try:
                build_container(L, fh, e[1])
            finally:
                L.container_free(fh)


def build_cif(L, doc):
    rc, cif = L.create()
    if rc != CIF_OK:
        raise BuildError('cif_create -> %d' % rc)
    try:
        for b in doc:
            rc, bh = L.create_block(cif, b['code'])
            if rc != CIF_OK:
                raise BuildError('create_block(%r) -> %d' % (b['code'][:30], rc))
            try:
                build_container(L, bh, b)
            finally:
                L.container_free(bh)
    except Exception:
        L.destroy(cif)
        raise
    return cif


def has_nested_frames(doc):
    def rec(blk, depth):
        for e in blk['entries']:
            if e[0] == 'frame':
                if depth >= 1 or rec(e[1], depth + 1):
                    return True
        return False
    return any(rec(b, 0) for b in doc)


# ---- boundary-biased strings --------------------------------------------------------------------------------------

SPECIAL = '\'"#$_;[]{}:\\ \t'
PLAIN = 'abcdefghijklmnopqrstuvwxyzABCXYZ0123456789.,-+/*=()<>|~^%&@!`?'
WIDE2 = 'éßÅµΔΩЖ中가'
ASTRAL = '\U0001f600\U00010000\U0010fffd\U00020000'


def rand_line(rng, n, ascii_only=False):
    out = []
    for _ in range(n):
        r = rng.random()
        if r < 0.6:
            out.append(rng.choice(PLAIN))
        elif r < 0.85:
            out.append(rng.choice(SPECIAL))
        elif ascii_only:
            out.append(rng.choice(PLAIN))
        elif r < 0.93:
            out.append(rng.choice(WIDE2))
        else:
            out.append(rng.choice(ASTRAL))
    return ''.join(out)


def boundary_string(rng, ascii_only=False, big=False):
    """strings aimed at the writer's decisions: delimiter choice, wrapping, folding, prefixing"""
    fam = rng.randrange(16)
    L = rand_line
    if fam == 0:
        return rng.choice(['', ' ', '\n', ';', '\\', "'", '"', "'''", '"""', '?', '.', '#', '$', '_', '[', '{', 'data_x', 'loop_',
                           'stop_', 'global_', 'save_', 'SAVE_f', ';\\', '\\\n', '\n;', ';\n;', "'\"", "''' \"\"\""])
    if fam == 1:
        return L(rng, rng.choice([1, 2, 3, 10, 40]), ascii_only)
    if fam == 2:
        n = rng.choice([2038, 2040, 2041, 2042, 2043, 2044, 2045, 2046, 2047, 2048, 2049, 2050, 2052])
        return L(rng, n, ascii_only).replace('\n', 'n')
    if fam == 3:
        n = rng.choice([2046, 2047, 2048, 2049])
        body = rng.choice(['x', 'y ', "'", '"', ';', '\\', 'é' if not ascii_only else 'e', ASTRAL[0] if not ascii_only else 'z'])
        s = (body * n)[:n]
        return s
    if fam == 4:
        # several lines, one of them at / near the limit
        lines = [L(rng, rng.choice([0, 1, 5, 30]), ascii_only) for _ in range(rng.randint(2, 5))]
        k = rng.randrange(len(lines))
        lines[k] = L(rng, rng.choice([2046, 2047, 2048, 2049, 2060]), ascii_only)
        return '\n'.join(lines)
    if fam == 5:
        # fold / prefix marker look-alikes and backslashes at line ends
        first = rng.choice(['\\', '\\  ', 'pre\\', 'pre\\\\', '> \\', 'a\\b\\', ';\\', '\\\\', ' \\'])
        rest = [L(rng, rng.randint(0, 20), ascii_only) + rng.choice(['', '\\', '\\ ', '\\\t', ' ']) for _ in range(rng.randint(0, 3))]
        return '\n'.join([first] + rest)
    if fam == 6:
        # text-field terminator look-alikes
        parts = [L(rng, rng.randint(0, 12), ascii_only) for _ in range(rng.randint(2, 4))]
        return '\n;'.join(parts)
    if fam == 7:
        # both kinds of triple quotes / quotes at the end
        return rng.choice(["a'''b\"\"\"c", "'''", '"""x', "it's \"q\"", "x'", 'x"', "''", '""', "a'\nb\"", "'''\n\"\"\"", "q'''", 'q"""',
                           "ab''", 'ab""']) + rng.choice(['', L(rng, 5, ascii_only)])
    if fam == 8:
        # trailing blanks / tabs, empty lines
        return '\n'.join(L(rng, rng.randint(0, 10), ascii_only) + rng.choice(['', ' ', '\t', '   ']) for _ in range(rng.randint(1, 5))) + rng.choice(['', '\n', '\n\n'])
    if fam == 9:
        n = rng.choice([4090, 4095, 4096, 4097, 4100])
        return L(rng, n, ascii_only).replace('\n', ' ')
    if fam == 10 and big:
        return '\n'.join(L(rng, rng.randint(0, 120), ascii_only) for _ in range(300))
    if fam == 11:
        # a long run of semicolons / characters without any blank (no fold point)
        c = rng.choice([';', 'x', '\\', "'"])
        return c * rng.choice([2047, 2048, 2049, 3000, 5000])
    if fam == 12 and not ascii_only:
        # supplementary characters around the folding target (2040 code units)
        return 'a' * rng.choice([2030, 2036, 2038, 2039, 2040, 2041]) + ASTRAL[0] * 10 + ' tail ' * 3
    if fam == 13:
        return L(rng, rng.choice([300, 1000]), ascii_only)
    if fam == 14:
        # words separated by blanks, longer than a line: folding at word boundaries
        words = [L(rng, rng.randint(1, 12), ascii_only).replace(' ', '') for _ in range(rng.choice([200, 400, 800]))]
        return ' '.join(words)
    return L(rng, rng.randint(0, 60), ascii_only) + rng.choice(['', '\n' + L(rng, rng.randint(0, 60), ascii_only)])


def writer_value(rng, depth=2, ascii_only=False, big=False, allow_composite=True):
    r = rng.random()
    if allow_composite and depth > 0 and r < 0.18:
        n = rng.choice([0, 1, 2, 3, 6])
        return ('list', tuple(writer_value(rng, depth - 1, ascii_only, big) for _ in range(n)))
    if allow_composite and depth > 0 and r < 0.33:
        n = rng.choice([0, 1, 2, 4])
        ents = {}
        for _ in range(n):
            k = clean2(boundary_string(rng, ascii_only)) if rng.random() < 0.2 else clean2(G.rand_key(rng))
            if len(k) > 3000:
                k = k[:3000]
            ents[N.nfc(k)] = (k, writer_value(rng, depth - 1, ascii_only, big))
        return ('table', tuple(ents.values()))
    if r < 0.40:
        return ('unk',)
    if r < 0.45:
        return ('na',)
    if r < 0.57:
        return ('numb', G.rand_number_text(rng), rng.random() < 0.15)
    if r < 0.67:
        t = G.rand_token(rng)
        if ascii_only:
            t = ''.join(c for c in t if ord(c) < 0x7f) or 'tok'
        if rng.random() < 0.2:
            t = ';' + t
        return ('char', t, False) if GC.unquoted_ok(t, 2) and t[0] not in '[]{}' else ('char', t, True)
    s = clean2(boundary_string(rng, ascii_only, big))
    return ('char', s, True)


def clean2(s):
    return ''.join(c for c in s if GC.cif2_char_ok(c))


def writer_doc(rng, ascii_only=False, big=False, frames=True):
    version = 1 if ascii_only else 2
    used = set()
    doc = []
    for _ in range(rng.choice([1, 1, 2])):
        doc.append(writer_container(rng, used, ascii_only, big, 2 if frames else 0))
    return doc


def long_name(rng, used, ascii_only):
    while True:
        n = rng.choice([1500, 2000, 2030, 2040, 2044, 2046, 2047])
        s = '_' + ''.join(rng.choice('abcxyz0123456789._') for _ in range(n))
        if N.norm(s) not in used:
            used.add(N.norm(s))
            return s


def writer_container(rng, used_codes, ascii_only, big, frame_depth):
    version = 1 if ascii_only else 2
    used = set()
    entries = []
    for _ in range(rng.choice([1, 2, 3, 5])):
        r = rng.random()
        if r < 0.6:
            nm = long_name(rng, used, ascii_only) if rng.random() < 0.08 else GC.rand_name(rng, used, version)
            entries.append(('item', nm, writer_value(rng, 2, ascii_only, big, allow_composite=not ascii_only)))
        elif r < 0.85:
            k = rng.choice([1, 2, 3, 4])
            names = [long_name(rng, used, ascii_only) if rng.random() < 0.05 else GC.rand_name(rng, used, version) for _ in range(k)]
            rows = rng.choice([1, 2, 3])
            cat = rng.choice([None, None, 'cat'])
            entries.append(('loop', names, [[writer_value(rng, 1, ascii_only, big, allow_composite=not ascii_only) for _ in range(k)] for _ in range(rows)], cat))
        elif frame_depth > 0:
            entries.append(('frame', writer_container(rng, set(), ascii_only, big, frame_depth - 1)))
    # frame codes unique within this container
    seen = set()
    out = []
    for e in entries:
        if e[0] == 'frame':
            n = N.norm(e[1]['code'])
            if n in seen:
                continue
            seen.add(n)
        out.append(e)
    code = GC.rand_code(rng, used_codes, version)
    if rng.random() < 0.05:
        code = ''.join(rng.choice('abcxyz') for _ in range(rng.choice([2000, 2040, 2043])))
        used_codes.add(N.norm(code))
    return {'code': code, 'entries': out}


# ---- equivalence of the round trip --------------------------------------------------------------------------------

def eq_value(v):
    """canonical form under the tolerances of the round-trip property"""
    k = v[0]
    if k == 'numb' and not v[2]:
        return ('char', v[1], False)        # a number and an unquoted string with the same text are the same value
    if k == 'numb':
        return ('char', v[1], True)
    if k == 'char':
        if not v[2] and v[1].startswith(';'):
            return ('char', v[1], True)     # may come back quoted
        return v
    if k == 'list':
        return ('list', tuple(eq_value(e) for e in v[1]))
    if k == 'table':
        return ('table', tuple(sorted(((N.nfc(key), eq_value(e)) for key, e in v[1]), key=lambda kv: kv[0])))
    return v


def eq_container(c):
    code, frames, loops = c
    fr = sorted((eq_container(f) for f in frames), key=lambda x: x[0])
    lp = []
    for cat, names, packets in loops:
        nn = tuple(sorted(N.norm(n) for n in names))
        pk = sorted((tuple(sorted((n, eq_value(v)) for n, v in p)) for p in packets), key=repr)
        lp.append((nn, tuple(pk)))
    lp.sort(key=repr)
    return (code, tuple(fr), tuple(lp))


def eq_dump(d):
    return ('cif', tuple(sorted((eq_container(b) for b in d[1]), key=lambda x: x[0])))


def key_writable(key):
    """can a table key be written as a quoted or triple-quoted string (independent rule).  The library may take
    its line-fit decisions in UTF-16 code units, which over-estimates lines holding supplementary characters; a key
    is only *required* to be writable when it also fits by that measure (DESIGN.md section 5)."""
    if not GC.key_forms(key):
        return False
    # the same rule with every supplementary character counted twice
    widened = ''.join(c + 'x' if ord(c) > 0xffff else c for c in key)
    return bool(GC.key_forms(widened))


def unwritable_keys(v):
    if v[0] == 'table':
        return any(not key_writable(k) or unwritable_keys(e) for k, e in v[1])
    if v[0] == 'list':
        return any(unwritable_keys(e) for e in v[1])
    return False


def doc_values(doc):
    def rec(blk):
        for e in blk['entries']:
            if e[0] == 'item':
                yield e[2]
            elif e[0] == 'loop':
                for p in e[2]:
                    for v in p:
                        yield v
            else:
                for v in rec(e[1]):
                    yield v
    for b in doc:
        for v in rec(b):
            yield v
