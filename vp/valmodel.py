"""Executable reference model of cif_api value objects (char / numb / list / table / unk / na) and packets.

Values are immutable tuples (see lib.read_value); all operations are functional updates so that a model of several
independent slots cannot share state by accident - which is exactly what the real objects are required not to do."""
from . import gen_values as G
from . import names as N
from .lib import (CIF_OK, CIF_ARGUMENT_ERROR, CIF_INVALID_INDEX, CIF_INVALID_NUMBER, CIF_NOSUCH_ITEM,
                  CIF_INVALID_ITEMNAME, KIND_CHAR, KIND_NUMB, KIND_LIST, KIND_TABLE, KIND_NA, KIND_UNK)

KIND_OF = {'char': KIND_CHAR, 'numb': KIND_NUMB, 'list': KIND_LIST, 'table': KIND_TABLE, 'na': KIND_NA,
           'unk': KIND_UNK}
UNK = ('unk',)
NA = ('na',)


def default_of(kind):
    return {KIND_CHAR: ('char', '', True), KIND_NUMB: ('numb', '0', False), KIND_LIST: ('list', ()),
            KIND_TABLE: ('table', ()), KIND_NA: NA, KIND_UNK: UNK}[kind]


def canon(v):
    """order-insensitive form for comparison: table entries sorted by key (enumeration order is unspecified)"""
    if v[0] == 'list':
        return ('list', tuple(canon(e) for e in v[1]))
    if v[0] == 'table':
        return ('table', tuple(sorted(((k, canon(e)) for k, e in v[1]), key=lambda kv: kv[0])))
    return v


def has_invalid_key_chars(key):
    for c in key:
        o = ord(c)
        if (o < 0x20 and c not in '\t\n\r') or o == 0x7f or 0xfdd0 <= o <= 0xfdef or (o & 0xfffe) == 0xfffe \
                or 0xd800 <= o <= 0xdfff:
            return True
    return False


# ---- navigation -------------------------------------------------------------------------------------------

def get_at(v, steps):
    for kind, arg in steps:
        if kind == 'i':
            v = v[1][arg]
        else:
            v = table_lookup(v, arg)[1]
    return v


def set_at(v, steps, new):
    if not steps:
        return new
    (kind, arg), rest = steps[0], steps[1:]
    if kind == 'i':
        elems = list(v[1])
        elems[arg] = set_at(elems[arg], rest, new)
        return ('list', tuple(elems))
    idx, _ = table_lookup(v, arg)
    ents = list(v[1])
    ents[idx] = (ents[idx][0], set_at(ents[idx][1], rest, new))
    return ('table', tuple(ents))


def table_lookup(t, key):
    """(index, value) of the entry whose key is canonically equivalent to key, or (None, None)"""
    nk = N.nfc(key)
    for i, (k, e) in enumerate(t[1]):
        if N.nfc(k) == nk:
            return i, e
    return None, None


# ---- operations: each returns (acceptable rc set, new value) ------------------------------------------------

def op_set_quoted(v, quoted, lenient):
    k = v[0]
    if k == 'unk':
        return {CIF_OK}, (('char', '?', True) if quoted else v)
    if k == 'na':
        return {CIF_OK}, (('char', '.', True) if quoted else v)
    if k in ('list', 'table'):
        return ({CIF_ARGUMENT_ERROR} if quoted else {CIF_OK}), v
    if k == 'numb':
        return {CIF_OK}, ('numb', v[1], bool(quoted))
    # char
    if quoted or not v[2]:
        return {CIF_OK}, ('char', v[1], bool(quoted))
    text = v[1]
    if text == '':
        return {CIF_ARGUMENT_ERROR}, v
    if text == '?':
        return {CIF_OK}, UNK
    if text == '.':
        return {CIF_OK}, NA
    if G.is_reserved(text):
        return {CIF_ARGUMENT_ERROR}, v
    if any(c in ' \t\n\r' for c in text):
        return {CIF_ARGUMENT_ERROR}, v
    if any(c in '[]{}' for c in text):
        return ({CIF_OK} if lenient else {CIF_ARGUMENT_ERROR}), v
    return {CIF_OK}, ('char', text, False)


def op_coerce_number(v):
    """effect of cif_value_get_number / get_su"""
    if v[0] == 'numb':
        return {CIF_OK}, v
    if v[0] == 'char':
        if G.is_number(v[1]):
            return {CIF_OK}, ('numb', v[1], v[2])
        return {CIF_INVALID_NUMBER}, v
    return {CIF_ARGUMENT_ERROR}, v


def op_list_insert(v, i, elem):
    if v[0] != 'list':
        return {CIF_ARGUMENT_ERROR}, v
    if i > len(v[1]):
        return {CIF_INVALID_INDEX}, v
    e = list(v[1])
    e.insert(i, elem if elem is not None else UNK)
    return {CIF_OK}, ('list', tuple(e))


def op_list_set(v, i, elem):
    if v[0] != 'list':
        return {CIF_ARGUMENT_ERROR}, v
    if i >= len(v[1]):
        return {CIF_INVALID_INDEX}, v
    e = list(v[1])
    e[i] = elem if elem is not None else UNK
    return {CIF_OK}, ('list', tuple(e))


def op_list_remove(v, i):
    """returns (rcs, new list, removed element or None)"""
    if v[0] != 'list':
        return {CIF_ARGUMENT_ERROR}, v, None
    if i >= len(v[1]):
        return {CIF_INVALID_INDEX}, v, None
    e = list(v[1])
    r = e.pop(i)
    return {CIF_OK}, ('list', tuple(e)), r


def op_table_set(v, key, elem):
    if v[0] != 'table':
        return {CIF_ARGUMENT_ERROR}, v
    if has_invalid_key_chars(key):
        return {CIF_INVALID_INDEX}, v
    idx, _ = table_lookup(v, key)
    ents = list(v[1])
    new = elem if elem is not None else UNK
    if idx is None:
        ents.append((key, new))
    else:
        ents[idx] = (key, new)      # enumerates in the most recently used spelling
    return {CIF_OK}, ('table', tuple(ents))


def op_table_get(v, key):
    if v[0] != 'table':
        return {CIF_ARGUMENT_ERROR}, None
    if has_invalid_key_chars(key):
        return {CIF_NOSUCH_ITEM}, None
    idx, e = table_lookup(v, key)
    if idx is None:
        return {CIF_NOSUCH_ITEM}, None
    return {CIF_OK}, e


def op_table_remove(v, key):
    if v[0] != 'table':
        return {CIF_ARGUMENT_ERROR}, v, None
    if has_invalid_key_chars(key):
        return {CIF_NOSUCH_ITEM}, v, None
    idx, e = table_lookup(v, key)
    if idx is None:
        return {CIF_NOSUCH_ITEM}, v, None
    ents = list(v[1])
    ents.pop(idx)
    return {CIF_OK}, ('table', tuple(ents)), e


# ---- packets: ('packet', ((name_orig, value), ...)) with data-name matching -------------------------------------

def name_valid(name):
    if len(name) < 2 or name[0] != '_':
        return False
    if sum(1 for c in name if not 0xdc00 <= ord(c) <= 0xdfff) > 2048 and len(name) > 2048:
        pass
    for c in name:
        o = ord(c)
        if o <= 0x20 or o == 0x7f or 0xfdd0 <= o <= 0xfdef or (o & 0xfffe) == 0xfffe or 0xd800 <= o <= 0xdfff:
            return False
    return len(name) <= 2048     # Python str length == code points


def packet_lookup(p, name):
    nn = N.norm(name)
    for i, (k, e) in enumerate(p[1]):
        if N.norm(k) == nn:
            return i, e
    return None, None


def op_packet_set(p, name, elem):
    if not name_valid(name):
        return {CIF_INVALID_ITEMNAME}, p
    idx, _ = packet_lookup(p, name)
    ents = list(p[1])
    new = elem if elem is not None else UNK
    if idx is None:
        ents.append((name, new))
    else:
        ents[idx] = (name, new)
    return {CIF_OK}, ('packet', tuple(ents))


def op_packet_get(p, name):
    if not name_valid(name):
        return {CIF_NOSUCH_ITEM}, None
    idx, e = packet_lookup(p, name)
    return ({CIF_OK}, e) if idx is not None else ({CIF_NOSUCH_ITEM}, None)


def op_packet_remove(p, name):
    if not name_valid(name):
        return {CIF_NOSUCH_ITEM}, p, None
    idx, e = packet_lookup(p, name)
    if idx is None:
        return {CIF_NOSUCH_ITEM}, p, None
    ents = list(p[1])
    ents.pop(idx)
    return {CIF_OK}, ('packet', tuple(ents)), e
