"""Always-on probe of the numeric attributes of number values: whenever the binding reads a value of number kind
(Lib.read_value), the doubles the library derives from it - cif_value_get_number, cif_value_get_su - are compared
with the correctly rounded doubles of the exact decimal quantities its *text* denotes (fractions.Fraction; the same
oracle as C10).  Text, digits and uncertainty digits are stored separately by the library, through cloning,
serialisation and the storage engine; this is what notices when they drift apart.  Judged only in the default
rounding mode and for zero or normal-range magnitudes."""
import math
import re
from fractions import Fraction

NUM_RE = re.compile(r'\A([+-]?)([0-9]*)(\.?)([0-9]*)(?:[eE]([+-]?[0-9]+))?(?:\(([0-9]+)\))?\Z')
DBL_MIN = 2.2250738585072014e-308
DBL_MAX = 1.7976931348623157e308
_cache = {}


def expected(text):
    """(number, su) as doubles, or None when the text is not judged"""
    if text in _cache:
        return _cache[text]
    out = None
    m = NUM_RE.match(text)
    if m and (m.group(2) or m.group(4)) and len(text) < 700:
        sign, ip, dot, fp, ex, su = m.groups()
        e = int(ex) if ex else 0
        scale = len(fp) - e
        if abs(scale) < 400:
            digits = int((ip + fp) or '0')
            p10 = Fraction(10) ** (-scale)
            try:
                val = float(Fraction(digits) * p10) * (-1 if sign == '-' else 1)
                s = float(Fraction(int(su)) * p10) if su is not None else 0.0
            except OverflowError:
                val = s = None
            ok = lambda x: x is not None and (x == 0 or DBL_MIN <= abs(x) <= DBL_MAX)
            if ok(val) and ok(s):
                out = (val, s)
    if len(_cache) > 20000:
        _cache.clear()
    _cache[text] = out
    return out


def install(L):
    def probe(v, text):
        if L.rounding is not None:
            return
        want = expected(text)
        if want is None:
            return
        L.numprobe_count += 1
        rc, d = L.value_number(v)
        if rc != 0 or (d != want[0] and not (d == 0 and want[0] == 0)):
            L.events.append(('numprobe', 'cif_value_get_number', 'number: the value with text %r yields %r (rc %d); its text denotes %r' % (text, d, rc, want[0])))
            return
        rc, s = L.value_su(v)
        if rc != 0 or s != want[1]:
            L.events.append(('numprobe', 'cif_value_get_su', 'su: the value with text %r yields the uncertainty %r (rc %d); its text denotes %r' % (text, s, rc, want[1])))
    L.numprobe_count = 0
    L.number_probe = probe
