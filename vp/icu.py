"""Independent ICU entry points used as oracle for normalisation (C09): unorm2_* singletons and the UTF-8 case-map
folding path - not the deprecated unorm_normalize / u_strFoldCase calls the library itself makes.  Loaded from the
system's uninstrumented libicuuc through ctypes."""
import ctypes as C


class ICU:
    def __init__(self):
        lib = None
        for n in range(90, 49, -1):
            try:
                lib = C.CDLL('libicuuc.so.%d' % n)
                self.suffix = '_%d' % n
                break
            except OSError:
                continue
        if lib is None:
            raise RuntimeError('libicuuc not found')
        self.lib = lib
        g = lambda name: getattr(lib, name + self.suffix)
        self.err = C.c_int(0)
        f = g('unorm2_getNFCInstance')
        f.restype = C.c_void_p
        f.argtypes = [C.POINTER(C.c_int)]
        self.nfc_inst = f(C.byref(self.err))
        f = g('unorm2_getNFDInstance')
        f.restype = C.c_void_p
        f.argtypes = [C.POINTER(C.c_int)]
        self.nfd_inst = f(C.byref(self.err))
        self._norm = g('unorm2_normalize')
        self._norm.restype = C.c_int32
        self._norm.argtypes = [C.c_void_p, C.c_void_p, C.c_int32, C.c_void_p, C.c_int32, C.POINTER(C.c_int)]
        f = g('ucasemap_open')
        f.restype = C.c_void_p
        f.argtypes = [C.c_char_p, C.c_uint32, C.POINTER(C.c_int)]
        self.csm = f(b'', 0, C.byref(self.err))
        self._fold = g('ucasemap_utf8FoldCase')
        self._fold.restype = C.c_int32
        self._fold.argtypes = [C.c_void_p, C.c_char_p, C.c_int32, C.c_char_p, C.c_int32, C.POINTER(C.c_int)]
        v = (C.c_uint8 * 4)()
        f = g('u_getUnicodeVersion')
        f.argtypes = [C.c_void_p]
        f(C.byref(v))
        self.unicode_version = '%d.%d' % (v[0], v[1])
        self._ccc = g('u_getCombiningClass')
        self._ccc.restype = C.c_uint8
        self._ccc.argtypes = [C.c_int32]

    def _normalize(self, inst, s):
        b = s.encode('utf-16-le', 'surrogatepass')
        n = len(b) // 2
        cap = 4 * n + 16
        out = C.create_string_buffer(2 * cap)
        err = C.c_int(0)
        m = self._norm(inst, b, n, out, cap, C.byref(err))
        if err.value > 0:
            raise RuntimeError('unorm2_normalize error %d' % err.value)
        return out.raw[:2 * m].decode('utf-16-le', 'surrogatepass')

    def nfc(self, s):
        return self._normalize(self.nfc_inst, s)

    def nfd(self, s):
        return self._normalize(self.nfd_inst, s)

    def fold(self, s):
        b = s.encode('utf-8')
        cap = 4 * len(b) + 16
        out = C.create_string_buffer(cap)
        err = C.c_int(0)
        m = self._fold(self.csm, out, cap, b, len(b), C.byref(err))
        if err.value > 0:
            raise RuntimeError('ucasemap_utf8FoldCase error %d' % err.value)
        return out.raw[:m].decode('utf-8')

    def cif_norm(self, s):
        """NFC(casefold(NFD(s))) - the documented normal form of codes and names"""
        return self.nfc(self.fold(self.nfd(s)))

    def ccc(self, cp):
        return self._ccc(cp)


_icu = None


def get():
    global _icu
    if _icu is None:
        _icu = ICU()
    return _icu
