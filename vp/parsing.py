"""One call to drive cif_parse under chosen options with recording callbacks (error, handler, syntax)."""
import ctypes as C

from . import lib as _lib
from . import walker
from .lib import CB_ERR, CB_SYN, ParseOpts, CIF_OK


class ParseResult:
    __slots__ = ('rc', 'cif', 'errors', 'rec', 'syntax', 'problems', 'first_error')


def make_opts(prefer_cif2=0, encoding=None, force=0, fold=0, prefix=0, depth=1, ws=None, eol=None):
    o = ParseOpts()
    o.prefer_cif2 = prefer_cif2
    o.default_encoding_name = encoding
    o.force_default_encoding = force
    o.line_folding_modifier = fold
    o.text_prefixing_modifier = prefix
    o.max_frame_depth = depth
    o.extra_ws_chars = ws
    o.extra_eol_chars = eol
    return o


def parse(L, data, opts=None, target='new', err_policy='accept', handler_program=None, with_handler=False,
          syntax=False, fail_at=0, chunk=0, touch=True, handler_answer_fn=None, loop_start_hook=None, omit=()):
    """err_policy: 'accept' | 'default' (no callback: abort on first error) | ('reject-nth', n) | ('reject-code', c)
       | callable(code, index) -> int.   Returns ParseResult; the caller owns res.cif (if target was 'new')."""
    if opts is None:
        opts = make_opts()
    res = ParseResult()
    res.errors = []
    res.syntax = []
    res.problems = []
    res.rec = None
    keep = []
    rep = [0]

    if err_policy != 'default':
        def ecb(code, line, col, text, length, data_):
            try:
                idx = len(res.errors)
                # the same error at the same place more often in a row than the input has bytes (unwinding N unclosed
                # brackets at the end of the input legitimately reports N times at one place): the parser is not
                # consuming its input and would go on until memory runs out; stop the parse and say so
                if res.errors and res.errors[-1] == (code, line, col, length):
                    rep[0] += 1
                    if rep[0] > len(data) + 10000:
                        if rep[0] == len(data) + 10001:
                            res.problems.append(('parse:no-progress:%d' % code, 'error %d was reported %d times in a row at line %d column %d for an input of %d bytes: the parse does not advance' % (code, rep[0], line, col, len(data))))
                        return 7777
                else:
                    rep[0] = 0
                res.errors.append((code, line, col, length))
                if line < 1:
                    res.problems.append(('callback:error:line-zero', 'error callback for code %d with line %d' % (code, line)))
                if text and length and touch:
                    L.vp_touch_uchars(text, length)      # the sanitizer judges readability of text[0..length)
                if err_policy == 'accept':
                    return 0
                if callable(err_policy):
                    return err_policy(code, idx)
                if err_policy[0] == 'reject-nth':
                    return (err_policy[2] if len(err_policy) > 2 else code) if idx + 1 >= err_policy[1] else 0
                if err_policy[0] == 'reject-code':
                    return code if code == err_policy[1] else 0
                return 0
            except Exception as e:
                res.problems.append(('harness:callback', 'error callback: %r' % (e,)))
                return 0
        f = CB_ERR(ecb)
        keep.append(f)
        opts.error_callback = f
    if with_handler or handler_program is not None or handler_answer_fn is not None or loop_start_hook is not None:
        res.rec = walker.Recorder(L, handler_program, query=True, parse_mode=True, answer_fn=handler_answer_fn,
                                  loop_start_hook=loop_start_hook, omit=omit)
        opts.handler = C.pointer(res.rec.handler)
    if syntax:
        def mk(kind):
            def scb(line, col, tok, length, data_):
                try:
                    s = ''
                    if tok and length:
                        if touch:
                            L.vp_touch_uchars(tok, length)
                        s = C.string_at(tok, 2 * length).decode('utf-16-le', 'surrogatepass')
                    nhandler = len(res.rec.events) if res.rec else 0
                    res.syntax.append((kind, line, col, s, nhandler, len(res.errors)))
                except Exception as e:
                    res.problems.append(('harness:callback', 'syntax callback: %r' % (e,)))
            f = CB_SYN(scb)
            keep.append(f)
            return f
        opts.whitespace_callback = mk('ws')
        opts.keyword_callback = mk('kw')
        opts.dataname_callback = mk('name')
    res.rc, res.cif = L.parse_bytes(data, opts, target, fail_at=fail_at, chunk=chunk)
    if res.rec:
        res.problems.extend(res.rec.problems)
    res.first_error = res.errors[0][0] if res.errors else None
    return res
