"""Native stages shared by C03 and C16: the libFuzzer target (coverage-guided hostile inputs for the parser contract)
and the valgrind memcheck runs of the uninstrumented parse runner.  Everything lives under /verif/build/ and is
removed afterwards; artifacts that witness a violation are copied to /verif/replays/."""
import os
import random
import re
import shutil
import subprocess
import tempfile
import time
from concurrent.futures import ThreadPoolExecutor

from . import build
from . import sanitizer

VERIF = os.path.dirname(os.path.dirname(os.path.abspath(__file__)))
DICT = ['data_', 'save_', 'loop_', 'stop_', 'global_', '_n', '\n;', "'''", '"""', '[', ']', '{', '}', ':', '#\\#CIF_2.0\n',
        '#\\#CIF_1.1\n', ';\\\n', '\\\n', '\r\n', '\xef\xbb\xbf', '\xff\xfe', '\xfe\xff', '\x00', '\x0b', '\x0c', '\x1a', '\xed\xa0\x80',
        '1.5(3)', "'k':", '?', '.']


def bracket_depth(data):
    d = best = 0
    for c in data:
        if c == 0x5b or c == 0x7b:
            d += 1
            best = max(best, d)
        elif (c == 0x5d or c == 0x7d) and d:
            d -= 1
    return best


def seed_corpus(dest, seed, ndocs=150):
    """test data of the repository plus documents of the independent writer, each behind 8 selector bytes"""
    from .checks import C03
    rng = random.Random(seed)
    os.makedirs(dest, exist_ok=True)
    n = 0
    for name, b in C03.repo_files():
        if len(b) <= 8192:
            with open(os.path.join(dest, 'repo_%s' % name), 'wb') as f:
                f.write(bytes(rng.randrange(256) for _ in range(8)) + b)
            n += 1
    for i in range(ndocs):
        label, b = C03.seed_input(rng)
        if len(b) <= 6000:
            with open(os.path.join(dest, 'gen_%03d' % i), 'wb') as f:
                f.write(bytes(rng.randrange(256) for _ in range(8)) + b)
            n += 1
    return n


def classify_artifact(exe, path, timeout=300):
    """re-runs one artifact alone under ASan/UBSan: -> (key, detail) or None if it does not reproduce"""
    env = dict(os.environ, ASAN_OPTIONS='detect_leaks=1:abort_on_error=0:halt_on_error=1', UBSAN_OPTIONS='print_stacktrace=1')
    try:
        r = subprocess.run([exe, path], stdout=subprocess.PIPE, stderr=subprocess.PIPE, env=env, timeout=timeout)
    except subprocess.TimeoutExpired:
        return ('hang:fuzz-artifact', 'the artifact does not finish within %d s' % timeout)
    err = r.stderr.decode(errors='replace')
    m = re.search(r'^VP-VIOLATION (\S+) (.*)$', err, re.M)
    if m:
        return (m.group(1), m.group(2))
    keys = sanitizer.parse_report(err)
    if keys:
        return keys[0]
    if r.returncode != 0:
        return ('crash:exit%d' % r.returncode, err[-600:])
    return None


def run_fuzzer(seed, procs=16, runs=20000, max_len=4096, timeout=3600):
    """-> dict(stats..., findings=[(key, detail, artifact bytes)])"""
    fuzz = build.build('fuzz')
    asanexe = build.build('asanexe')
    work = tempfile.mkdtemp(prefix='fuzz-', dir=os.path.join(VERIF, 'build'))
    try:
        corpus0 = os.path.join(work, 'seedcorpus')
        ncorp = seed_corpus(corpus0, seed)
        dictfile = os.path.join(work, 'cif.dict')
        with open(dictfile, 'w') as f:
            for t in DICT:
                f.write('"%s"\n' % ''.join('\\x%02x' % b for b in t.encode('latin-1')))
        procs_l = []
        t0 = time.time()
        for p in range(procs):
            d = os.path.join(work, 'p%d' % p)
            os.makedirs(os.path.join(d, 'corpus'))
            os.makedirs(os.path.join(d, 'artifacts'))
            cmd = [fuzz, '-runs=%d' % runs, '-seed=%d' % (seed * 1000 + p + 1), '-max_len=%d' % max_len, '-dict=' + dictfile,
                   '-artifact_prefix=' + os.path.join(d, 'artifacts') + '/', '-timeout=60', '-rss_limit_mb=4096',
                   '-print_final_stats=1', os.path.join(d, 'corpus'), corpus0]
            env = dict(os.environ, ASAN_OPTIONS='detect_leaks=1:abort_on_error=0:halt_on_error=1', UBSAN_OPTIONS='print_stacktrace=1')
            procs_l.append((d, subprocess.Popen(cmd, stdout=subprocess.DEVNULL, stderr=open(os.path.join(d, 'log'), 'wb'), env=env, cwd=d)))
        execs = 0
        cov = ft = 0
        unfinished = 0
        for d, pr in procs_l:
            try:
                pr.wait(timeout=max(1, timeout - (time.time() - t0)))
            except subprocess.TimeoutExpired:
                pr.kill()
                unfinished += 1
            log = open(os.path.join(d, 'log'), 'rb').read().decode(errors='replace')
            m = re.search(r'stat::number_of_executed_units:\s*(\d+)', log)
            if m:
                execs += int(m.group(1))
            for mm in re.finditer(r'cov: (\d+) ft: (\d+)', log):
                cov = max(cov, int(mm.group(1)))
                ft = max(ft, int(mm.group(2)))
        findings = []
        seen = set()
        slow_units = 0
        for d, pr in procs_l:
            adir = os.path.join(d, 'artifacts')
            for n in sorted(os.listdir(adir)):
                path = os.path.join(adir, n)
                c = classify_artifact(asanexe, path)
                data = open(path, 'rb').read()
                if c is None and n.startswith('slow-unit'):
                    # libFuzzer's own report that an execution took long on a loaded machine; the input terminates and
                    # is clean when run alone: a wall-clock observation, not a verdict
                    slow_units += 1
                    continue
                if c is None:
                    c = ('fuzz:unreproduced:%s' % n.split('-')[0], 'libFuzzer saved %s but the input runs cleanly alone' % n)
                key = c[0]
                if bracket_depth(data[8:]) > 1000:
                    key += ':bracket-nesting-over-1000'
                if key not in seen:
                    seen.add(key)
                    findings.append((key, c[1], data))
        return dict(executions=execs, coverage_edges=cov, features=ft, seed_corpus=ncorp, processes=procs, unfinished=unfinished,
                    slow_units_clean_when_run_alone=slow_units, wall=time.time() - t0, findings=findings)
    finally:
        shutil.rmtree(work, ignore_errors=True)


def run_valgrind(inputs, procs=16, timeout=900):
    """inputs: list of bytes (selector bytes included) -> dict(runs, findings=[(key, detail, data)])"""
    exe = build.build('plain')
    work = tempfile.mkdtemp(prefix='vg-', dir=os.path.join(VERIF, 'build'))
    try:
        paths = []
        for i, b in enumerate(inputs):
            p = os.path.join(work, 'in_%04d' % i)
            with open(p, 'wb') as f:
                f.write(b)
            paths.append(p)

        def one(p):
            try:
                r = subprocess.run(['valgrind', '-q', '--error-exitcode=99', '--leak-check=full', '--errors-for-leak-kinds=definite,indirect',
                                    '--num-callers=12', exe, p], stdout=subprocess.PIPE, stderr=subprocess.PIPE, timeout=timeout)
            except subprocess.TimeoutExpired:
                return (p, 'timeout', '')
            return (p, r.returncode, r.stderr.decode(errors='replace'))
        findings = []
        seen = set()
        runs = timeouts = 0
        with ThreadPoolExecutor(max_workers=procs) as ex:
            for p, rc, err in ex.map(one, paths):
                if rc == 'timeout':
                    timeouts += 1
                    continue
                runs += 1
                if rc == 0:
                    continue
                data = open(p, 'rb').read()
                m = re.search(r'^VP-VIOLATION (\S+) (.*)$', err, re.M)
                keys = [(m.group(1), m.group(2))] if m else sanitizer.parse_valgrind(err)
                if not keys:
                    keys = [('valgrind:exit%s' % rc, err[-800:])]
                for key, detail in keys[:2]:
                    if bracket_depth(data[8:]) > 1000:
                        key += ':bracket-nesting-over-1000'
                    if key not in seen:
                        seen.add(key)
                        findings.append((key, detail, data))
        return dict(runs=runs, timeouts=timeouts, findings=findings)
    finally:
        shutil.rmtree(work, ignore_errors=True)
