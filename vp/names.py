"""Name / code / key pools with *known* normal forms.

The models need N(s) = NFC(casefold(NFD(s))) for the strings they use without asking the library under test.
Python's unicodedata (Unicode 14) is used ONLY on the fixed pools below, which consist of characters assigned long
before Unicode 14 whose normalisation and case-folding data are frozen by the Unicode stability policies; it is never
used to judge arbitrary strings (C09 does that against ICU through independent entry points)."""
import unicodedata


def norm(s):
    return unicodedata.normalize('NFC', unicodedata.normalize('NFD', s).casefold())


def nfc(s):
    return unicodedata.normalize('NFC', s)


# logical stems; each gets several spellings with the same normal form
_STEMS = ['a', 'b', 'cell.len', 'x_1', '\u00e9', '\u00e5str\u00f6m', 'stra\u00dfe', '\u01c6', '\u03c3\u03b1\u03c2',
          'd\u0323\u0307', 'q\u0323\u0307x', 'temp', 'u',
          # case folding that grows by two and three units (the fold buffer is sized for one)
          'ma\u00dfstra\u00dfe', 'e\ufb03cient']


def spellings(stem):
    """distinct spellings of one logical name, all with norm() equal to norm(stem)"""
    out = {stem, stem.upper(), stem.title(), unicodedata.normalize('NFD', stem), unicodedata.normalize('NFC', stem),
           unicodedata.normalize('NFD', stem.upper())}
    if '\u00df' in stem:
        out.add(stem.replace('\u00df', 'SS'))
        out.add(stem.replace('\u00df', '\u1e9e'))
    if '\ufb03' in stem:
        out.add(stem.replace('\ufb03', 'ffi'))
        out.add(stem.replace('\ufb03', 'FFI').upper())
        out.add(stem.replace('\ufb03', 'f\ufb01'))
    if '\u01c6' in stem:
        out.update([stem.replace('\u01c6', '\u01c5'), stem.replace('\u01c6', '\u01c4')])
    if '\u03c3' in stem:
        out.add(stem.replace('\u03c2', '\u03c3'))
        out.add(stem.upper())
    if '\u0323\u0307' in stem:
        # reordered combining marks (dot below ccc 220, dot above ccc 230): canonical ordering makes them equal
        out.add(stem.replace('\u0323\u0307', '\u0307\u0323'))
        out.add(stem.upper().replace('\u0323\u0307', '\u0307\u0323'))
    n0 = norm(stem)
    return sorted(s for s in out if norm(s) == n0)


def item_names():
    """list of (stem_id, [spellings]) for data names"""
    return [(i, ['_' + s for s in spellings(st)]) for i, st in enumerate(_STEMS)]


def codes():
    return [(i, spellings(st)) for i, st in enumerate(_STEMS)]


INVALID_NAMES = ['', '_', 'noscore', '_a b', '_a\tb', '_a\nb', '_\x01', '_a\x7f', '_a\ufffe', '_a\ud800',
                 '_a\udc00b', '_a\ufdd0', '_' + 'x' * 2048, '_a\U0001fffe',
                 '_' + '\U0001f600' * 2048]
# the limits count characters (code points), not UTF-16 units: names made of supplementary characters reach them too
VALID_EDGE_NAMES = ['_' + 'x' * 2047, '_' + '\U0001f600' * 2047, '_' + '\U00010428' * 1030 + 'q', '_\U0010fffd', '_a\U00010000b', '_#', '_$', "_'", '_;', '_[', '_{']
INVALID_CODES = ['', 'a b', 'a\tb', 'a\n', '\x02', 'a\x7f', 'a\uffff', 'a\ud800', '\udc00', 'a\ufdef', 'c' * 2044, '\U0001f600' * 2044]
VALID_EDGE_CODES = ['c' * 2043, '\U0001f600' * 2043, '\U00010428' * 1025, '_', '#x', '$', "'", ';', '[', '\U0001f600', 'data_', 'loop_']
