"""Executable reference model of a managed CIF (the documented data model), with the set of acceptable result codes
for every public container / loop / item / packet operation.

A model CIF is a tree of MContainer objects; a container has save frames and loops; a loop has a category (None,
'' = the scalar loop, or text), item names (original spelling + normal form) and packets (dict normal form -> value).
Where the documentation leaves a result open, the operation returns several acceptable codes (see DESIGN.md section 5).
"""
from . import names as N
from . import valmodel as VM
from .lib import *      # noqa: F401,F403

UNK = ('unk',)


def valid_code(code):
    if code is None or code == '':
        return False
    for c in code:
        o = ord(c)
        if o <= 0x20 or o == 0x7f or 0xfdd0 <= o <= 0xfdef or (o & 0xfffe) == 0xfffe or 0xd800 <= o <= 0xdfff:
            return False
    return len(code) <= 2043


def c1_only_problem(s, is_name):
    """True when the only thing wrong/unclear with s is a C1 control (U+0080-U+009F): accept or reject, both fine"""
    return any(0x80 <= ord(c) <= 0x9f for c in s)


valid_name = VM.name_valid


class MLoop:
    def __init__(self, category, names):
        self.category = category
        self.names = list(names)          # [(orig, norm)]
        self.packets = []                 # [dict norm -> value]
        self.partial = False              # some packet lacks an explicitly stored value (see ambiguity register)
        self.ghost = False                # scalar loop whose only packet vanished because its last stored value
                                          # was removed with its item (known finding: it then refuses new packets)

    def norms(self):
        return [n for _, n in self.names]

    def dump(self):
        pk = []
        for p in self.packets:
            pk.append(tuple(sorted((n, VM.canon(p.get(n, UNK))) for n in self.norms())))
        pk.sort(key=repr)
        return (self.category, tuple(sorted(o for o, _ in self.names)), tuple(pk))


class MContainer:
    def __init__(self, code, parent=None):
        self.code = code
        self.norm = N.norm(code) if code_normalizable(code) else code
        self.parent = parent
        self.frames = []
        self.loops = []

    def find_frame(self, code):
        n = N.norm(code) if code_normalizable(code) else code
        for f in self.frames:
            if f.norm == n:
                return f
        return None

    def item_loop(self, name):
        n = N.norm(name)
        for l in self.loops:
            if n in l.norms():
                return l
        return None

    def scalar_loop(self):
        for l in self.loops:
            if l.category == '':
                return l
        return None

    def dump(self):
        fr = sorted((f.dump() for f in self.frames), key=lambda c: c[0])
        lp = sorted((l.dump() for l in self.loops), key=repr)
        return (self.code, tuple(fr), tuple(lp))

    def count_items(self):
        return sum(len(l.names) for l in self.loops) + sum(f.count_items() for f in self.frames)


def code_normalizable(code):
    return not any(0xd800 <= ord(c) <= 0xdfff for c in code)


class MCif:
    def __init__(self):
        self.blocks = []

    def find_block(self, code):
        n = N.norm(code) if code_normalizable(code) else code
        for b in self.blocks:
            if b.norm == n:
                return b
        return None

    def dump(self):
        return ('cif', tuple(sorted((b.dump() for b in self.blocks), key=lambda c: c[0])))

    def containers(self):
        out = []

        def rec(c):
            out.append(c)
            for f in c.frames:
                rec(f)
        for b in self.blocks:
            rec(b)
        return out


# ---- operations ------------------------------------------------------------------------------------------------
# Each returns the set of acceptable result codes; the state change is applied by `commit()` closures returned
# alongside, which the driver calls only when the real call reported success.

def op_create_block(cif, code):
    if code is None:
        return {CIF_ARGUMENT_ERROR}, None
    if not valid_code(code):
        rcs = {CIF_INVALID_BLOCKCODE}
        if valid_code(''.join(c for c in code if not 0x80 <= ord(c) <= 0x9f)) and c1_only_problem(code, False):
            rcs.add(CIF_OK)
        return rcs, None
    if cif.find_block(code):
        return {CIF_DUP_BLOCKCODE}, None

    def commit():
        b = MContainer(code)
        cif.blocks.append(b)
        return b
    rcs = {CIF_OK}
    if c1_only_problem(code, False):
        rcs.add(CIF_INVALID_BLOCKCODE)
    return rcs, commit


def op_get_block(cif, code):
    b = cif.find_block(code)
    if b:
        return {CIF_OK}, b
    if not valid_code(code):
        return {CIF_NOSUCH_BLOCK, CIF_INVALID_BLOCKCODE}, None
    return {CIF_NOSUCH_BLOCK}, None


def op_create_frame(cont, code):
    if not valid_code(code):
        return {CIF_INVALID_FRAMECODE}, None
    if cont.find_frame(code):
        return {CIF_DUP_FRAMECODE}, None

    def commit():
        f = MContainer(code, cont)
        cont.frames.append(f)
        return f
    return {CIF_OK}, commit


def op_get_frame(cont, code):
    if not valid_code(code):
        return {CIF_NOSUCH_FRAME, CIF_INVALID_FRAMECODE}, None
    f = cont.find_frame(code)
    return ({CIF_OK}, f) if f else ({CIF_NOSUCH_FRAME}, None)


def op_create_loop(cont, category, names):
    """names: list of spellings"""
    if len(names) == 0:
        return {CIF_NULL_LOOP}, None
    rcs = set()
    norms = []
    for n in names:
        if not valid_name(n):
            rcs.add(CIF_INVALID_ITEMNAME)
        else:
            nn = N.norm(n)
            if cont.item_loop(n) or nn in norms:
                rcs.add(CIF_DUP_ITEMNAME)
            norms.append(nn)
    if category == '' and cont.scalar_loop() is not None:
        rcs.add(CIF_RESERVED_LOOP)
    if rcs:
        return rcs, None

    def commit():
        l = MLoop(category, [(n, N.norm(n)) for n in names])
        cont.loops.append(l)
        return l
    return {CIF_OK}, commit


def op_get_category_loop(cont, category):
    if category is None:
        return {CIF_INVALID_CATEGORY}, None
    hits = [l for l in cont.loops if l.category == category]
    if not hits:
        return {CIF_NOSUCH_LOOP}, None
    if len(hits) > 1:
        return {CIF_CAT_NOT_UNIQUE}, None
    return {CIF_OK}, hits[0]


def op_get_item_loop(cont, name):
    if not valid_name(name):
        return {CIF_NOSUCH_ITEM}, None
    l = cont.item_loop(name)
    return ({CIF_OK}, l) if l else ({CIF_NOSUCH_ITEM}, None)


def op_get_value(cont, name):
    """returns (rcs, set of acceptable values or None)"""
    if not valid_name(name):
        return {CIF_NOSUCH_ITEM}, None
    l = cont.item_loop(name)
    if l is None or not l.packets:
        return {CIF_NOSUCH_ITEM}, None
    nn = N.norm(name)
    vals = [VM.canon(p.get(nn, UNK)) for p in l.packets]
    if l.partial:
        return {CIF_OK, CIF_AMBIGUOUS_ITEM, CIF_NOSUCH_ITEM}, vals
    if len(l.packets) == 1:
        return {CIF_OK}, vals
    return {CIF_AMBIGUOUS_ITEM}, vals


def op_set_value(cont, name, value):
    if name is None or not valid_name(name):
        return {CIF_INVALID_ITEMNAME}, None
    nn = N.norm(name)
    l = cont.item_loop(name)
    v = value if value is not None else UNK

    def commit():
        if l is not None:
            for p in l.packets:
                p[nn] = v
            return l
        sl = cont.scalar_loop()
        if sl is None:
            sl = MLoop('', [])
            cont.loops.append(sl)
        sl.names.append((name, nn))
        if sl.packets:
            sl.packets[0][nn] = v
        else:
            sl.packets.append({nn: v})
            if len(sl.names) > 1:
                sl.partial = True
        return sl
    return {CIF_OK}, commit


def op_remove_item(cont, name):
    if name is None or not valid_name(name):
        return {CIF_NOSUCH_ITEM}, None
    l = cont.item_loop(name)
    if l is None:
        return {CIF_NOSUCH_ITEM}, None
    nn = N.norm(name)

    def commit():
        if len(l.names) == 1:
            cont.loops.remove(l)
        else:
            l.names = [(o, n) for o, n in l.names if n != nn]
            for p in l.packets:
                p.pop(nn, None)
            # a packet exists only through the values explicitly stored for it (the model keeps exactly those);
            # one that held nothing but the removed item is gone (implementation-defined corner, DESIGN.md section 5)
            before = len(l.packets)
            l.packets = [p for p in l.packets if p]
            if l.category == '' and len(l.packets) < before:
                l.ghost = True
        return l
    return {CIF_OK}, commit


def op_set_category(cont, loop, category):
    if category == '' or loop.category == '':
        return {CIF_RESERVED_LOOP}, None

    def commit():
        loop.category = category
    return {CIF_OK}, commit


def op_add_item(cont, loop, name, value):
    if not valid_name(name):
        return {CIF_INVALID_ITEMNAME}, None
    if cont.item_loop(name):
        return {CIF_DUP_ITEMNAME}, None
    nn = N.norm(name)
    v = value if value is not None else UNK

    def commit():
        loop.names.append((name, nn))
        for p in loop.packets:
            p[nn] = v
    return {CIF_OK}, commit


def op_add_packet(cont, loop, pkt_items):
    """pkt_items: list of (name spelling, value)"""
    if not pkt_items:
        return {CIF_INVALID_PACKET}, None
    rcs = set()
    norms = loop.norms()
    for n, _ in pkt_items:
        if N.norm(n) not in norms:
            rcs.add(CIF_WRONG_LOOP)
    if loop.category == '' and loop.packets:
        rcs.add(CIF_RESERVED_LOOP)
    if rcs:
        if loop.ghost:
            rcs.add(CIF_RESERVED_LOOP)
        return rcs, None

    def commit():
        p = {N.norm(n): v for n, v in pkt_items}
        if len(p) < len(norms):
            loop.partial = True
        loop.packets.append(p)
    return {CIF_OK}, commit


def op_prune(cont):
    def commit():
        cont.loops = [l for l in cont.loops if l.packets]
    return {CIF_OK}, commit


def op_loop_destroy(cont, loop):
    def commit():
        cont.loops.remove(loop)
    return {CIF_OK}, commit


def op_container_destroy(cif, cont):
    def commit():
        if cont.parent is None:
            cif.blocks.remove(cont)
        else:
            cont.parent.frames.remove(cont)
    return {CIF_OK}, commit
