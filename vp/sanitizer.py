"""Parsing of sanitizer / valgrind reports into deterministic violation keys."""
import re

_FRAME = re.compile(r'^\s*#(\d+)\s+0x[0-9a-f]+\s+(?:in\s+)?(\S+)\s*(.*)$')
_ASAN_HEAD = re.compile(r'ERROR: (AddressSanitizer|LeakSanitizer|UndefinedBehaviorSanitizer)(?::\s*([A-Za-z0-9_\-]+))?')
_UBSAN = re.compile(r'^(\S+?):(\d+):(\d+): runtime error: (.*)$')
_SEGV_KIND = re.compile(r'The signal is caused by a (READ|WRITE) memory access')


def _is_lib_frame(rest):
    # frames whose source file belongs to the library under test (the build snapshots it under .../tree/src/)
    return '/tree/src/' in rest or '/repo/src/' in rest


def _norm_msg(msg):
    msg = re.sub(r'0x[0-9a-f]+', 'ADDR', msg)
    msg = re.sub(r'-?\d+', 'N', msg)
    msg = re.sub(r"'[^']*'", 'T', msg)
    msg = re.sub(r'\s+', '-', msg.strip())
    return msg[:60]


def parse_report(text):
    """Returns a list of (key, summary) for the reports found in sanitizer output text."""
    out = []
    lines = text.splitlines()
    i = 0
    n = len(lines)
    while i < n:
        line = lines[i]
        m = _ASAN_HEAD.search(line)
        mu = _UBSAN.match(line.strip()) if not m else None
        if m and m.group(1) != 'UndefinedBehaviorSanitizer':
            tool = 'asan' if m.group(1) == 'AddressSanitizer' else 'lsan'
            klass = m.group(2) or 'error'
            # collect the first stack
            frames = []
            j = i + 1
            started = False
            while j < n:
                fm = _FRAME.match(lines[j])
                if fm:
                    started = True
                    frames.append((fm.group(2), fm.group(3)))
                elif started:
                    break
                elif _ASAN_HEAD.search(lines[j]):
                    break
                j += 1
            if klass == 'SEGV':
                for k in range(i, min(n, i + 6)):
                    sm = _SEGV_KIND.search(lines[k])
                    if sm:
                        klass = 'SEGV-' + sm.group(1)
            libf = [f for f, rest in frames if _is_lib_frame(rest)]
            if not libf:
                libf = [f for f, rest in frames if not f.startswith('__') and 'asan' not in rest][:3]
            key = '%s:%s:%s' % (tool, klass, '<'.join(libf[:3]))
            if klass == 'stack-overflow':
                # the innermost frames vary from run to run; the recursion cycle (functions seen repeatedly) does not
                cyc = sorted(set(f for f in libf if libf.count(f) >= 3))
                # (when the stack ran out inside a callback of the harness, the 256 frames ASan prints may all be the
                # interpreter's: the cycle is then out of sight)
                key = '%s:%s:recursion:%s' % (tool, klass, '+'.join(cyc) if cyc else 'unresolved')
            out.append((key, '\n'.join(lines[i:min(n, j + 1)])[:3000]))
            i = j
            continue
        if mu:
            fn = ''
            frames = []
            j = i + 1
            while j < n:
                fm = _FRAME.match(lines[j])
                if fm:
                    frames.append((fm.group(2), fm.group(3)))
                    j += 1
                else:
                    break
            libf = [f for f, rest in frames if _is_lib_frame(rest)]
            fn = libf[0] if libf else (frames[0][0] if frames else re.sub(r'^.*/', '', mu.group(1)))
            key = 'ubsan:%s:%s' % (_norm_msg(mu.group(4)), fn)
            out.append((key, '\n'.join(lines[i:min(n, j + 1)])[:3000]))
            i = j
            continue
        i += 1
    return out


_VG_ERR = re.compile(r'^==\d+== ([A-Z][A-Za-z ]+?)(?: of size \d+)?$')
_VG_FRAME = re.compile(r'^==\d+==\s+(?:at|by) 0x[0-9A-F]+: (\S+) \((.*)\)')


def parse_valgrind(text):
    out = []
    lines = text.splitlines()
    i = 0
    kinds = ('Invalid read', 'Invalid write', 'Conditional jump or move depends on uninitialised value',
             'Use of uninitialised value', 'Invalid free', 'Mismatched free', 'Syscall param',
             'Source and destination overlap')
    while i < len(lines):
        body = re.sub(r'^==\d+== ', '', lines[i])
        hit = None
        for k in kinds:
            if body.startswith(k):
                hit = k
                break
        if hit is None and re.search(r'are definitely lost|are indirectly lost', body):
            hit = 'leak'
        if hit:
            frames = []
            j = i + 1
            while j < len(lines):
                fm = _VG_FRAME.match(lines[j])
                if fm:
                    frames.append((fm.group(1), fm.group(2)))
                    j += 1
                else:
                    break
            libf = [f for f, src in frames if re.match(r'(cif|ciffile|container|loop|map|packet|parser|pktitr|utils|value)\.c:', src)]
            key = 'valgrind:%s:%s' % (hit.replace(' ', '-')[:40], '<'.join(libf[:3]))
            out.append((key, '\n'.join(lines[i:j])[:3000]))
            i = j
            continue
        i += 1
    return out
