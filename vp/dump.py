"""Canonical dump of a managed CIF through the public query API only (never through cif_walk, so that the walk
property has an independent observer).

dump(L, cif) -> ('cif', (container, ...))           containers sorted by normalised code
container    =  (code_orig, (frame, ...), (loop, ...))
loop         =  (category or None, (name_orig sorted...), (packet sorted...))
packet       =  ((name_normalised, value), ...) sorted by name
value        =  model value of lib.read_value
"""
from . import lib as _lib
from .lib import CIF_OK, CIF_EMPTY_LOOP, HarnessError


def canon(v):
    """table entries sorted by key: enumeration order of a table is unspecified"""
    if v[0] == 'list':
        return ('list', tuple(canon(e) for e in v[1]))
    if v[0] == 'table':
        return ('table', tuple(sorted(((k, canon(e)) for k, e in v[1]), key=lambda kv: kv[0])))
    return v


class DumpError(Exception):
    """a query needed for the dump failed: (function, rc)"""
    def __init__(self, fn, rc):
        Exception.__init__(self, '%s -> %d' % (fn, rc))
        self.fn = fn
        self.rc = rc


def dump_loop(L, loop, numbers=False):
    rc, cat = L.loop_get_category(loop)
    if rc != CIF_OK:
        raise DumpError('cif_loop_get_category', rc)
    rc, names = L.loop_get_names(loop)
    if rc != CIF_OK:
        raise DumpError('cif_loop_get_names', rc)
    packets = []
    rc, it = L.loop_get_packets(loop)
    if rc == CIF_OK:
        pkt = None
        try:
            while True:
                if pkt:
                    L.packet_free(pkt)
                    pkt = None
                rc, pkt = L.it_next(it, 'new')
                if rc == _lib.CIF_FINISHED:
                    break
                if rc != CIF_OK:
                    raise DumpError('cif_pktitr_next_packet', rc)
                rc, pnames = L.packet_names(pkt)
                if rc != CIF_OK:
                    raise DumpError('cif_packet_get_names', rc)
                items = []
                for n in pnames:
                    rc, v = L.packet_get(pkt, n)
                    if rc != CIF_OK:
                        raise DumpError('cif_packet_get_item', rc)
                    pv = L.read_value(v)
                    if numbers:
                        pv = with_numbers(L, v, pv)
                    pv = canon(pv)
                    items.append((n, pv))
                items.sort(key=lambda kv: kv[0])
                packets.append(tuple(items))
        finally:
            if pkt:
                L.packet_free(pkt)
            rc = L.it_abort(it)
            if rc != CIF_OK:
                raise DumpError('cif_pktitr_abort', rc)
    elif rc != CIF_EMPTY_LOOP:
        raise DumpError('cif_loop_get_packets', rc)
    packets.sort(key=repr)
    return (cat, tuple(sorted(names)), tuple(packets))


def with_numbers(L, v, pv):
    """augment a model value with the doubles the library derives from it.  For a value of number kind the accessors
    are pure; they are applied to the value itself, not to a clone, so that a defect of cloning cannot cancel out"""
    if pv[0] == 'numb':
        r1, d = L.value_number(v)
        r2, su = L.value_su(v)
        return pv + ((r1, d.hex() if r1 == CIF_OK else None, r2, su.hex() if r2 == CIF_OK else None),)
    if pv[0] == 'list':
        out = []
        for i, e in enumerate(pv[1]):
            rc, ev = L.list_get(v, i)
            out.append(with_numbers(L, ev, e))
        return ('list', tuple(out))
    if pv[0] == 'table':
        out = []
        for key, e in pv[1]:
            rc, ev = L.table_get(v, key)
            out.append((key, with_numbers(L, ev, e) if rc == CIF_OK else e))
        return ('table', tuple(out))
    return pv


def dump_container(L, cont, numbers=False):
    rc, code = L.get_code(cont)
    if rc != CIF_OK:
        raise DumpError('cif_container_get_code', rc)
    rc, frames = L.get_all_frames(cont)
    if rc != CIF_OK:
        raise DumpError('cif_container_get_all_frames', rc)
    fr = []
    try:
        for f in frames:
            fr.append(dump_container(L, f, numbers))
    finally:
        for f in frames:
            L.container_free(f)
    rc, loops = L.get_all_loops(cont)
    if rc != CIF_OK:
        raise DumpError('cif_container_get_all_loops', rc)
    lp = []
    try:
        for l in loops:
            lp.append(dump_loop(L, l, numbers))
    finally:
        for l in loops:
            L.loop_free(l)
    fr.sort(key=lambda c: c[0])
    lp.sort(key=repr)
    return (code, tuple(fr), tuple(lp))


def dump(L, cif, numbers=False):
    rc, blocks = L.get_all_blocks(cif)
    if rc != CIF_OK:
        raise DumpError('cif_get_all_blocks', rc)
    out = []
    try:
        for b in blocks:
            out.append(dump_container(L, b, numbers))
    finally:
        for b in blocks:
            L.container_free(b)
    out.sort(key=lambda c: c[0])
    return ('cif', tuple(out))


# ---- comparison helpers -------------------------------------------------------------------------------------

def first_difference(a, b, path='cif'):
    """a short human-readable description of where two dumps / model values differ (None if equal)"""
    if a == b:
        return None
    if type(a) != type(b):
        return '%s: %r vs %r' % (path, _short(a), _short(b))
    if isinstance(a, tuple):
        if len(a) != len(b):
            return '%s: length %d vs %d: %s vs %s' % (path, len(a), len(b), _short(a), _short(b))
        for i, (x, y) in enumerate(zip(a, b)):
            d = first_difference(x, y, '%s[%d]' % (path, i))
            if d:
                return d
        return None
    return '%s: %r vs %r' % (path, _short(a), _short(b))


def _short(x, n=160):
    r = repr(x)
    return r if len(r) <= n else r[:n] + '...(%d chars)' % len(r)
