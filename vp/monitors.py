"""Session-level monitors shared by the checks: allocation-ledger balance, handle counters, transaction state."""
import ctypes as C
import os
import subprocess

_site_cache = {}


def resolve_sites(libpath, offsets):
    """offset in the shared object -> function name (addr2line), cached"""
    need = [o for o in offsets if o not in _site_cache]
    if need:
        env = dict(os.environ)
        env.pop('LD_PRELOAD', None)
        try:
            out = subprocess.run(['addr2line', '-f', '-e', libpath] + ['0x%x' % (o - 1) for o in need],
                                 stdout=subprocess.PIPE, env=env, timeout=60).stdout.decode().splitlines()
            for i, o in enumerate(need):
                fn = out[2 * i] if 2 * i < len(out) else '?'
                src = out[2 * i + 1] if 2 * i + 1 < len(out) else '?'
                _site_cache[o] = '%s(%s)' % (fn, os.path.basename(src.split(' ')[0]))
        except Exception:
            for o in need:
                _site_cache[o] = '0x%x' % o
    return [_site_cache[o] for o in offsets]


class LedgerScope:
    """with LedgerScope(L) as s: ... ; s.leaks -> list of (site, size) left allocated by the library"""

    def __init__(self, L):
        self.L = L
        self.leaks = []
        self.handles = None

    def __enter__(self):
        L = self.L
        self.serial0 = L.vp_ledger_serial()
        self.h0 = L.handle_counts()
        self.sq0 = L.vp_sq_live_blocks()
        self.uf0 = L.vp_unknown_frees()
        return self

    def __exit__(self, et, ev, tb):
        return False

    def finish(self):
        """call after everything has been released; returns list of problem descriptions (key suffix, detail)"""
        L = self.L
        probs = []
        buf = C.create_string_buffer(8192)
        n = L.vp_ledger_report(self.serial0, buf, len(buf), 40)
        if n:
            sites = []
            for line in buf.value.decode().splitlines():
                serial, size, off = line.split()
                sites.append((int(off, 16), int(size)))
            names = resolve_sites(L.path, [o for o, _ in sites])
            agg = {}
            for (o, size), nm in zip(sites, names):
                a = agg.setdefault(nm, [0, 0])
                a[0] += 1
                a[1] += size
            for nm, (cnt, size) in sorted(agg.items()):
                probs.append(('ledger:%s' % nm.split('(')[0], '%d block(s), %d bytes still allocated from %s' % (cnt, size, nm)))
            L.vp_ledger_forget(self.serial0)
        h1 = L.handle_counts()
        for label, a, b in zip(('ucnv', 'ufile', 'sqlite-db', 'sqlite-stmt'), self.h0, h1):
            if b != a:
                probs.append(('handles:%s' % label, '%s handles: %d before, %d after the session' % (label, a, b)))
        sq1 = L.vp_sq_live_blocks()
        if sq1 != self.sq0 and h1[2] == self.h0[2]:
            probs.append(('sqlite-mem', 'SQLite blocks live: %d before, %d after' % (self.sq0, sq1)))
        uf = L.vp_unknown_frees()
        if uf != self.uf0:
            site = resolve_sites(L.path, [L.vp_unknown_free_site()])[0]
            probs.append(('unknown-free:%s' % site.split('(')[0], 'the library released %d pointer(s) it never allocated (last in %s)' % (uf - self.uf0, site)))
        return probs
