"""Builds the instrumented copies of libcif (plus the /verif helpers) from the *current working tree* of the
repository.  Nothing is written into the repository; objects go to /verif/build/<variant>-<hash>/ where <hash>
covers every compiled source, header, the generated configuration and the flags, so a stale binary is never reused.
"""
import hashlib
import os
import re
import shutil
import subprocess
import sys
import tempfile
import time
from concurrent.futures import ThreadPoolExecutor

VERIF = os.path.dirname(os.path.dirname(os.path.abspath(__file__)))
BUILD_ROOT = os.path.join(VERIF, 'build')
LIB_SOURCES = ['cif', 'ciffile', 'container', 'loop', 'map', 'packet', 'parser', 'pktitr', 'utils', 'value']
WRAP_PLAIN = ['malloc', 'calloc', 'realloc', 'free', 'strdup', 'sqlite3_open_v2', 'sqlite3_close',
              'sqlite3_prepare_v2', 'sqlite3_finalize']
WRAP_ICU = ['ucnv_open', 'ucnv_close', 'u_finit', 'u_fclose']
LIBS = ['-licuio', '-licui18n', '-licuuc', '-lsqlite3', '-lm', '-ldl']

VARIANTS = {
    # primary: gcc ASan + UBSan, reports fatal
    'asan': dict(cc='gcc', cflags=['-O1', '-g', '-fno-omit-frame-pointer', '-fsanitize=address,undefined',
                                   '-fno-sanitize-recover=all', '-fPIC'],
                 ldflags=['-fsanitize=address,undefined', '-shared'], kind='so'),
    # same plus gcov counters (evidence: which anchored code the monitors actually saw)
    'cov': dict(cc='gcc', cflags=['-O0', '-g', '--coverage', '-fPIC'],
                ldflags=['--coverage', '-shared'], kind='so', defines=['-DVP_COVERAGE']),
    # uninstrumented, for valgrind memcheck of the standalone parse runner
    'plain': dict(cc='gcc', cflags=['-O1', '-g', '-fno-omit-frame-pointer'], ldflags=[], kind='exe',
                  main='parse_run.c'),
    # clang libFuzzer target
    'fuzz': dict(cc='clang', cflags=['-O1', '-g', '-fno-omit-frame-pointer',
                                     '-fsanitize=fuzzer-no-link,address,undefined',
                                     '-fno-sanitize-recover=all', '-fno-sanitize=object-size'],
                 ldflags=['-fsanitize=fuzzer,address,undefined'], kind='exe', main='fuzz_parse.c',
                 defines=['-DVP_LIBFUZZER']),
    # ASan standalone parse runner (reproduces fuzz artifacts one per process, prints the violation key material)
    'asanexe': dict(cc='gcc', cflags=['-O1', '-g', '-fno-omit-frame-pointer', '-fsanitize=address,undefined',
                                      '-fno-sanitize-recover=all'],
                    ldflags=['-fsanitize=address,undefined'], kind='exe', main='parse_run.c'),
}


def repo_root():
    return os.environ.get('CIF_REPO', '/repo')


def _read(path):
    with open(path, 'rb') as f:
        return f.read()


def _source_files(repo):
    files = []
    src = os.path.join(repo, 'src')
    for n in LIB_SOURCES:
        files.append(os.path.join(src, n + '.c'))
    for n in sorted(os.listdir(src)):
        if n.endswith('.h'):
            files.append(os.path.join(src, n))
    internal = os.path.join(src, 'internal')
    for n in sorted(os.listdir(internal)):
        if n.endswith('.h') and n not in ('schema.h',):
            files.append(os.path.join(internal, n))
    ut = os.path.join(repo, 'uthash')
    for n in sorted(os.listdir(ut)):
        if n.endswith('.h'):
            files.append(os.path.join(ut, n))
    files.append(os.path.join(repo, 'config.h'))
    files.append(os.path.join(repo, 'misc', 'cif_schema.sql'))
    return files


def _native_files():
    nat = os.path.join(VERIF, 'native')
    return [os.path.join(nat, n) for n in sorted(os.listdir(nat)) if n.endswith(('.c', '.h'))]


def ensure_generated(repo):
    """config.h / version.h are generated, git-ignored files.  If a restore lost them, regenerate them with the
    repository's own rules; schema.h is always regenerated into the build tree from misc/cif_schema.sql."""
    if not os.path.exists(os.path.join(repo, 'config.h')):
        subprocess.run(['sh', '-c', 'cd %s && ./configure >/dev/null 2>&1' % repo], check=True)
    vh = os.path.join(repo, 'src', 'internal', 'version.h')
    if not os.path.exists(vh):
        subprocess.run(['make', '-C', os.path.join(repo, 'src'), 'internal/version.h'], check=True,
                       stdout=subprocess.DEVNULL, stderr=subprocess.DEVNULL)


SED_SQL_MANGLER = (r's/^  *//; s/  *$//; $ s/\([^;]\)$/\1;/; '
                   r'/^[Bb][Ee][Gg][Ii][Nn][^;]*$/,/^[Ee][Nn][Dd] *;/ { /^[Ee][Nn][Dd] *;/ b t; b i; }; '
                   r'/;$/ b t; :i; s/.*/"& "/; H; d; :t; s/^\(.*\);$/"\1"/; H; s/.*/,/; x')


def generate_schema_h(repo, dest):
    """The repository's own rule (src/Makefile.am: internal/schema.h), run on the working tree's SQL source."""
    sql = os.path.join(repo, 'misc', 'cif_schema.sql')
    body = subprocess.run(
        "grep '[^[:space:]]' '%s' | grep -v '\\s*--' | sed -e '%s'" % (sql, SED_SQL_MANGLER),
        shell=True, check=True, stdout=subprocess.PIPE).stdout.decode()
    with open(dest, 'w') as f:
        f.write('/*\n * This file is automatically generated from cif_schema.sql.\n */\n')
        f.write('#ifndef INTERNAL_SCHEMA_H\n#define INTERNAL_SCHEMA_H\n')
        f.write('static const char * const schema_statements[] = {\n')
        f.write(body)
        f.write(', (char *) 0\n};\n#endif\n')


_icu_names = None


def icu_symbol_names():
    global _icu_names
    if _icu_names is None:
        src = '#include <unicode/ucnv.h>\n#include <unicode/ustdio.h>\n' + ''.join(
            'VPSYM %s\n' % n for n in WRAP_ICU)
        out = subprocess.run(['gcc', '-E', '-P', '-x', 'c', '-'], input=src.encode(), stdout=subprocess.PIPE,
                             check=True).stdout.decode()
        _icu_names = re.findall(r'VPSYM\s+(\w+)', out)
        assert len(_icu_names) == len(WRAP_ICU), out[-400:]
    return _icu_names


def tree_hash(variant):
    repo = repo_root()
    h = hashlib.sha256()
    h.update(repr(sorted(VARIANTS[variant].items())).encode())
    for p in _source_files(repo) + _native_files():
        h.update(p.encode())
        h.update(b'\0')
        h.update(_read(p))
    return h.hexdigest()[:16]


def _run(cmd, cwd=None):
    r = subprocess.run(cmd, cwd=cwd, stdout=subprocess.PIPE, stderr=subprocess.STDOUT)
    if r.returncode != 0:
        raise BuildError('command failed: %s\n%s' % (' '.join(cmd), r.stdout.decode(errors='replace')[-4000:]))


class BuildError(Exception):
    pass


def build(variant='asan', verbose=False):
    """Returns the path of the built artifact for the variant (shared object or executable)."""
    spec = VARIANTS[variant]
    repo = repo_root()
    ensure_generated(repo)
    key = tree_hash(variant)
    final = os.path.join(BUILD_ROOT, '%s-%s' % (variant, key))
    artifact = os.path.join(final, 'libcifvp.so' if spec['kind'] == 'so' else 'vp_' + variant)
    if os.path.exists(artifact):
        os.utime(final, None)
        return artifact
    os.makedirs(BUILD_ROOT, exist_ok=True)
    t0 = time.time()
    tmp = tempfile.mkdtemp(prefix='.tmp-%s-' % variant, dir=BUILD_ROOT)
    try:
        tree = os.path.join(tmp, 'tree')
        # snapshot the sources (so that a file edited while we compile cannot produce a mixed build)
        shutil.copytree(os.path.join(repo, 'src'), os.path.join(tree, 'src'),
                        ignore=lambda d, names: [n for n in names
                                                 if not (n.endswith(('.c', '.h')) or n == 'internal')
                                                 or n.startswith('test')])
        shutil.copytree(os.path.join(repo, 'uthash'), os.path.join(tree, 'uthash'))
        shutil.copy(os.path.join(repo, 'config.h'), os.path.join(tree, 'config.h'))
        generate_schema_h(repo, os.path.join(tree, 'src', 'internal', 'schema.h'))
        nat = os.path.join(tmp, 'native')
        shutil.copytree(os.path.join(VERIF, 'native'), nat)
        inc = ['-DHAVE_CONFIG_H', '-I', tree, '-I', os.path.join(tree, 'src'), '-I', os.path.join(tree, 'uthash')]
        cc = spec['cc']
        jobs = []
        objs = []
        for n in LIB_SOURCES:
            o = os.path.join(tmp, n + '.o')
            objs.append(o)
            jobs.append([cc] + spec['cflags'] + spec.get('defines', []) + ['-w'] + inc +
                        ['-c', os.path.join(tree, 'src', n + '.c'), '-o', o])
        extra = ['vphelp.c'] if spec['kind'] == 'so' else [spec['main']]
        for n in extra:
            o = os.path.join(tmp, n[:-2] + '.o')
            objs.append(o)
            jobs.append([cc] + spec['cflags'] + spec.get('defines', []) + ['-Wall'] + inc +
                        ['-c', os.path.join(nat, n), '-o', o])
        with ThreadPoolExecutor(max_workers=16) as ex:
            list(ex.map(_run, jobs))
        out = os.path.join(tmp, os.path.basename(artifact))
        link = [cc] + spec['ldflags'] + objs + ['-o', out]
        if spec['kind'] == 'so':
            for s in WRAP_PLAIN + icu_symbol_names():
                link.append('-Wl,--wrap=' + s)
        link += LIBS
        _run(link)
        with open(os.path.join(tmp, 'BUILDINFO'), 'w') as f:
            f.write('variant=%s\nrepo=%s\nhash=%s\nseconds=%.1f\n' % (variant, repo, key, time.time() - t0))
        try:
            os.rename(tmp, final)
        except OSError:
            # somebody else finished the same build first
            shutil.rmtree(tmp, ignore_errors=True)
        if verbose:
            print('built %s in %.1fs' % (artifact, time.time() - t0), file=sys.stderr)
    except BaseException:
        shutil.rmtree(tmp, ignore_errors=True)
        raise
    prune()
    return artifact


def prune(keep=6):
    """Bound disk use: keep only the most recently used build directories."""
    try:
        entries = [os.path.join(BUILD_ROOT, n) for n in os.listdir(BUILD_ROOT)]
    except OSError:
        return
    now = time.time()
    dirs = []
    for p in entries:
        n = os.path.basename(p)
        if n.startswith('.tmp-'):
            try:
                if now - os.path.getmtime(p) > 3600:
                    shutil.rmtree(p, ignore_errors=True)
            except OSError:
                pass
        elif os.path.isdir(p):
            dirs.append(p)
    dirs.sort(key=lambda p: os.path.getmtime(p), reverse=True)
    per_variant = {}
    for p in dirs:
        v = os.path.basename(p).split('-')[0]
        per_variant.setdefault(v, []).append(p)
    for v, ps in per_variant.items():
        for p in ps[keep:]:
            shutil.rmtree(p, ignore_errors=True)


if __name__ == '__main__':
    names = sys.argv[1:] or ['asan']
    if names == ['--all']:
        names = ['asan', 'cov', 'asanexe', 'plain', 'fuzz']
    for v in names:
        print(v, build(v, verbose=True))
