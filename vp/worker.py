"""Child side of the pool: runs one shard of one check inside an instrumented process."""
import hashlib
import importlib
import json
import os
import random
import sys
import time
import traceback


class Ctx:
    def __init__(self, spec, out):
        self.params = spec['params']
        self.shard = spec['shard']
        self.nshards = spec['nshards']
        self.start_after = spec.get('start_after', -1)
        self.seed = int(self.params.get('seed', 1))
        self.tier = self.params.get('tier', 'quick')
        self._out = out
        self.counters = {}
        self.sets = {}
        self.maxes = {}
        self.samples = []
        self._L = None
        self.single = spec.get('single')      # replay: only this case index
        self.resume = spec.get('resume')      # {'index': case, 'at': position inside it} after a crash inside a case
        self._last_stat = time.time()
        self._last_tick = time.time()

    @property
    def L(self):
        if self._L is None:
            from . import lib
            self._L = lib.get()
            # heartbeat: a case that keeps making library calls is making progress, however long it takes
            self._L.tick = self._tick
        return self._L

    def _tick(self):
        now = time.time()
        if now - self._last_tick > 5:
            self._last_tick = now
            self._out.write('{"t":"tick"}\n')
            self._out.flush()

    def emit(self, msg):
        self._out.write(json.dumps(msg, default=repr) + '\n')
        self._out.flush()

    def mine(self, i):
        """does case index i belong to this shard and is it still to be done?"""
        if self.single is not None:
            return i == self.single
        return i % self.nshards == self.shard and i > self.start_after

    def cases(self, total):
        if self.single is not None:
            if 0 <= self.single < total:
                yield self.single
            return
        first = self.shard
        if self.start_after >= 0:
            # smallest index > start_after congruent to shard
            k = (self.start_after - self.shard) // self.nshards + 1
            first = self.shard + k * self.nshards
        for i in range(first, total, self.nshards):
            yield i

    def begin(self, i, info=None):
        # counters gathered so far survive a crash of the case about to start
        now = time.time()
        if now - self._last_stat > 0.5:
            self._last_stat = now
            self.flush_stats()
        self._out.write('{"t":"begin","i":%d%s}\n' % (i, (',"info":' + json.dumps(info, default=repr)) if info is not None else ''))
        self._out.flush()

    def flush_stats(self):
        if self._L is not None and getattr(self._L, 'numprobe_count', 0):
            self.counters['number_values_probed'] = self.counters.get('number_values_probed', 0) + self._L.numprobe_count
            self._L.numprobe_count = 0
        if self.counters or self.sets or self.maxes or self.samples:
            self.emit(dict(t='stat', counters=self.counters, sets={k: sorted(v) for k, v in self.sets.items()},
                           maxes=self.maxes, samples=self.samples))
            self.counters = {}
            self.sets = {}
            self.samples = []

    def rng(self, *key):
        h = hashlib.sha256(repr((self.seed,) + key).encode()).digest()
        return random.Random(int.from_bytes(h[:8], 'little'))

    def violation(self, key, detail, case=None):
        self.emit(dict(t='viol', key=key, detail=detail, case=case))

    def count(self, name, n=1):
        self.counters[name] = self.counters.get(name, 0) + n

    def add(self, setname, item):
        self.sets.setdefault(setname, set()).add(item)

    def maxi(self, name, v):
        if v > self.maxes.get(name, v - 1):
            self.maxes[name] = v

    def sample(self, obj, limit=4):
        if len(self.samples) < limit:
            self.samples.append(obj)

    def inconclusive(self, why):
        self.emit(dict(t='inconclusive', why=why))

    def drain_events(self, case=None, prefix=''):
        """turn monitor events recorded by the binding into violations"""
        L = self._L
        if L is None or not L.events:
            return 0
        n = 0
        for kind, fn, detail in L.events:
            self.violation('%s:%s:%s' % (kind, detail.split(':')[0], fn), '%s after %s: %s' % (kind, fn, detail), case)
            n += 1
        L.events.clear()
        return n

    def finish(self):
        self.flush_stats()
        self.emit(dict(t='done'))


def main():
    specfile = sys.argv[1]
    try:
        # die with the parent: a killed check must not leave instrumented workers spinning
        import ctypes
        ctypes.CDLL(None).prctl(1, 9)
    except Exception:
        pass
    with open(specfile) as f:
        spec = json.load(f)
    # keep the protocol stream private: anything the library or Python prints to fd 1 goes to stderr instead
    out = os.fdopen(os.dup(1), 'w')
    os.dup2(2, 1)
    ctx = Ctx(spec, out)
    mod = importlib.import_module(spec['module'])
    try:
        mod.worker(ctx)
    except Exception:
        traceback.print_exc()
        sys.stderr.write('HarnessError: worker raised\n')
        sys.stderr.flush()
        os._exit(3)
    ctx.drain_events()
    ctx.finish()
    out.flush()
    if os.environ.get('VP_LIB_VARIANT') == 'cov':
        try:
            import ctypes
            ctypes.CDLL(os.environ['VP_LIB']).vp_cov_dump()
        except Exception:
            traceback.print_exc()
    os._exit(0)


if __name__ == '__main__':
    main()
