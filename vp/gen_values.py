"""Random model values (independent of the library): texts from weighted character pools, numbers in every accepted
spelling, nested lists / tables.  Also the small predicates of the CIF 2.0 specification the models need."""
import re
import unicodedata

NUMBER_RE = re.compile(r'\A[+-]?(?:[0-9]+\.?[0-9]*|\.[0-9]+)(?:[eE][+-]?[0-9]+)?(?:\([0-9]+\))?\Z')

ASCII_SYNTAX = '\'"#$_;[]{}:\\?. \t'
ASCII_PLAIN = 'abcXYZ019-+/*=<>|~^%&@!`,()'
LATIN1 = 'éßÅµÿ '
BMP = 'ΔΩЖ中日가ﬁ﷏ﷰ� ​İẞÅ'
SUPP = '\U00010000\U0001f600\U0010fffd\U00020000\U0001d11e'
COMBINING = '̧̣́̈̊ͅ'
RESERVED = ['data_', 'data_x', 'DATA_x', 'save_', 'save_a', 'SaVe_', 'loop_', 'LOOP_', 'stop_', 'global_',
            'GLOBAL_', 'loop_x', 'stop_x', 'global_x', 'dat', 'data', 'sav_']

WS = ' \t\n\r'


def is_number(text):
    return bool(NUMBER_RE.match(text))


def is_reserved(text):
    """cif_is_reserved_string per its documentation: reserved first character or reserved-word form"""
    if not text:
        return False
    if text[0] in '_#$\'"':
        return True
    low = text.lower()
    if low.startswith('data_') or low.startswith('save_'):
        return True
    return low in ('loop_', 'stop_', 'global_')


def unquoted_outcome(text):
    """what cif_value_set_quoted(NOT_QUOTED) must do to a quoted char value: 'unk' | 'na' | 'ok' | 'refuse' |
    'dontcare' (characters CIF 2.0 does not permit in a document at all)"""
    if text == '':
        return 'refuse'
    if text == '?':
        return 'unk'
    if text == '.':
        return 'na'
    if any(c in ' \t\n\r[]{}' for c in text):
        return 'refuse'
    if is_reserved(text):
        return 'refuse'
    if any((ord(c) < 0x20 or ord(c) == 0x7f) for c in text):
        return 'dontcare'
    return 'ok'


def can_unquote(text):
    return unquoted_outcome(text) == 'ok'


def rand_text(rng, maxlen=12, pools=None, allow_nl=True):
    n = rng.choice([0, 1, 1, 2, 3, 3, 5, 8, maxlen])
    n = min(n, maxlen)
    out = []
    for _ in range(n):
        r = rng.random()
        if r < 0.40:
            out.append(rng.choice(ASCII_PLAIN))
        elif r < 0.65:
            c = rng.choice(ASCII_SYNTAX)
            out.append(c)
        elif r < 0.72 and allow_nl:
            out.append('\n')
        elif r < 0.80:
            out.append(rng.choice(LATIN1))
        elif r < 0.88:
            out.append(rng.choice(BMP))
        elif r < 0.94:
            out.append(rng.choice(SUPP))
        else:
            out.append(rng.choice(COMBINING))
    return ''.join(out)


def rand_token(rng, maxlen=10):
    """a text that can be an unquoted CIF 2.0 value"""
    for _ in range(50):
        n = rng.randint(1, maxlen)
        chars = ASCII_PLAIN + LATIN1 + BMP.replace(' ', '') + ';:\\?._#$\'"'
        t = ''.join(rng.choice(chars) for _ in range(n))
        if can_unquote(t) and not is_number(t):
            return t
    return 'tok'


def rand_number_text(rng):
    sign = rng.choice(['', '', '+', '-'])
    form = rng.randint(0, 4)
    ip = ''.join(rng.choice('0123456789') for _ in range(rng.choice([1, 1, 2, 3, 7, 18])))
    fp = ''.join(rng.choice('0123456789') for _ in range(rng.choice([0, 1, 2, 5, 12])))
    if form == 0:
        m = ip
    elif form == 1:
        m = ip + '.' + fp
    elif form == 2:
        m = '.' + (fp or '5')
    elif form == 3:
        m = ip + '.'
    else:
        m = '0' * rng.randint(0, 3) + ip + ('.' + fp if fp else '')
    e = ''
    if rng.random() < 0.4:
        e = rng.choice('eE') + rng.choice(['', '+', '-']) + str(rng.choice([0, 1, 2, 5, 10, 22, 100, 300]))
    su = ''
    if rng.random() < 0.4:
        su = '(' + ''.join(rng.choice('0123456789') for _ in range(rng.choice([1, 1, 2, 3]))) + ')'
    t = sign + m + e + su
    assert is_number(t), t
    return t


def rand_key(rng, maxlen=8):
    """a table key: any text without CIF-disallowed characters (tables do not case-fold)"""
    t = rand_text(rng, maxlen)
    return ''.join(c for c in t if not (ord(c) < 0x20 and c not in '\t\n\r') and not (0xfdd0 <= ord(c) <= 0xfdef)
                   and (ord(c) & 0xfffe) != 0xfffe)


def rand_scalar(rng, maxlen=12):
    r = rng.random()
    if r < 0.08:
        return ('unk',)
    if r < 0.16:
        return ('na',)
    if r < 0.36:
        return ('numb', rand_number_text(rng), rng.random() < 0.15)
    if r < 0.55:
        return ('char', rand_token(rng), False)
    if r < 0.62:
        # number-like text held as a (quoted) string
        return ('char', rand_number_text(rng), True)
    if r < 0.66:
        return ('char', rng.choice(['?', '.', '', ' ', '\n', ';', '_x', "'", '"', "'''", '"""']), True)
    return ('char', rand_text(rng, maxlen), True)


def rand_value(rng, depth=3, width=4, maxlen=12):
    if depth <= 0 or rng.random() < 0.55:
        return rand_scalar(rng, maxlen)
    if rng.random() < 0.5:
        n = rng.choice([0, 1, 2, width])
        return ('list', tuple(rand_value(rng, depth - 1, width, maxlen) for _ in range(n)))
    n = rng.choice([0, 1, 2, width])
    seen = {}
    for _ in range(n):
        k = rand_key(rng)
        # keys that are equal after NFC would collapse into one entry; the checks that want such pairs add them
        # deliberately (the pools consist of long-assigned characters, for which Python's NFC data are final)
        seen[unicodedata.normalize('NFC', k)] = (k, rand_value(rng, depth - 1, width, maxlen))
    return ('table', tuple(seen.values()))


def deep_value(rng, depth, leaf=None):
    """a chain nested to exactly `depth` levels (alternating list / table)"""
    v = leaf or rand_scalar(rng)
    for i in range(depth):
        if (i + rng.randint(0, 1)) % 2:
            v = ('list', (v,))
        else:
            v = ('table', (('k%d' % i, v),))
    return v


def value_size(v):
    if v[0] == 'list':
        return 1 + sum(value_size(e) for e in v[1])
    if v[0] == 'table':
        return 1 + sum(value_size(e) for _, e in v[1])
    return 1


def value_depth(v):
    if v[0] == 'list':
        return 1 + max([value_depth(e) for e in v[1]] or [0])
    if v[0] == 'table':
        return 1 + max([value_depth(e) for _, e in v[1]] or [0])
    return 0


def shape_signature(v):
    """kind skeleton of a value, for counting distinct shapes"""
    if v[0] == 'list':
        return 'L(' + ','.join(shape_signature(e) for e in v[1][:6]) + ')'
    if v[0] == 'table':
        return 'T(' + ','.join(shape_signature(e) for _, e in v[1][:6]) + ')'
    if v[0] in ('char', 'numb'):
        return v[0][0] + ('q' if v[2] else 'u')
    return v[0][0]
