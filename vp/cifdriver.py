"""Lock-step execution of managed-CIF operations against the real library and the reference model (cifmodel).

Every operation is addressed by *path* (block code / frame codes / an item name of the loop): fresh handles are
looked up for each call - under a random spelling variant of the codes, which exercises normalised matching - and
released afterwards, so that the model never depends on what a long-lived handle may cache."""
from . import cifmodel as CM
from . import dump as D
from . import names as N
from . import valmodel as VM
from .lib import *      # noqa: F401,F403


class Mismatch(Exception):
    def __init__(self, key, detail):
        Exception.__init__(self, detail)
        self.key = key
        self.detail = detail


_VARIANTS = {}
for _i, _sps in N.codes():
    for _s in _sps:
        _VARIANTS[_s] = _sps
for _i, _sps in N.item_names():
    for _s in _sps:
        _VARIANTS[_s] = _sps


def variant(rng, s):
    v = _VARIANTS.get(s)
    return rng.choice(v) if v else s


class Driver:
    def __init__(self, L, rng, ctx, prop='C04'):
        self.L = L
        self.rng = rng
        self.ctx = ctx
        self.cifs = []          # [(ptr, MCif)]
        self.log = []
        self.prop = prop
        self.failed_calls = 0
        self.checked_unchanged = 0

    # ---- life cycle ----
    def new_cif(self):
        rc, p = self.L.create()
        self.expect('cif_create', rc, {CIF_OK})
        self.cifs.append((p, CM.MCif()))
        return len(self.cifs) - 1

    def destroy_all(self):
        for p, m in self.cifs:
            self.L.destroy(p)
        self.cifs = []

    # ---- judging ----
    def expect(self, op, rc, rcs, extra='', pre=None):
        self.ctx.add('op_rc', '%s:%d' % (op, rc))
        if rc not in rcs:
            raise Mismatch('model:%s:%s:%d%s' % (op, '|'.join(str(r) for r in sorted(rcs)), rc,
                                                 (':' + pre) if pre else ''),
                           '%s returned %d (model allows %s) %s%s' % (op, rc, sorted(rcs), extra,
                                                                     (' [precondition: %s]' % pre) if pre else ''))

    def note(self, s):
        self.log.append(s)
        if len(self.log) > 400:
            del self.log[:200]

    def check_state(self, ci, why, op=''):
        """the real CIF must be exactly the model"""
        p, m = self.cifs[ci]
        try:
            got = D.dump(self.L, p)
        except D.DumpError as e:
            raise Mismatch('dump:%s:%d:%s' % (e.fn, e.rc, why), 'dumping CIF %d failed after %s: %s' % (ci, op, e))
        want = m.dump()
        if got != want:
            raise Mismatch('%s:%s' % (why, op.split('(')[0]),
                           'after %s the CIF differs from the data model: %s' % (op, D.first_difference(got, want)))
        self.ctx.count('state_comparisons')

    def check_tx(self, ci, op):
        p, m = self.cifs[ci]
        t = self.L.in_transaction(p)
        if t != 0:
            raise Mismatch('autocommit:%s' % op.split('(')[0], 'a transaction is still open on the CIF after %s' % op)

    def after_call(self, ci, op, rc, rcs, mutating=True, extra='', pre=None):
        self.note('%s -> %d' % (op, rc))
        self.expect(op.split('(')[0], rc, rcs, extra or op, pre)
        self.check_tx(ci, op)
        if rc != CIF_OK and mutating:
            self.failed_calls += 1
            self.ctx.count('failed_calls')
            self.ctx.add('failed_kinds', '%s:%d' % (op.split('(')[0], rc))
            self.check_state(ci, 'changed-on-failure', '%s=%d' % (op, rc))
            self.checked_unchanged += 1

    # ---- handle lookup ----
    def path_of(self, mcont):
        chain = []
        c = mcont
        while c is not None:
            chain.append(c)
            c = c.parent
        return list(reversed(chain))

    def open_container(self, ci, mcont):
        """returns a live handle (caller frees)"""
        L = self.L
        p, m = self.cifs[ci]
        chain = self.path_of(mcont)
        rc, h = L.get_block(p, variant(self.rng, chain[0].code))
        self.expect('cif_get_block', rc, {CIF_OK}, 'looking up %r' % chain[0].code)
        for f in chain[1:]:
            rc, h2 = L.get_frame(h, variant(self.rng, f.code))
            L.container_free(h)
            self.expect('cif_container_get_frame', rc, {CIF_OK}, 'looking up %r' % f.code)
            h = h2
        return h

    def open_loop(self, ci, mcont, mloop, ch):
        """loop handle by one of its item names (caller frees)"""
        L = self.L
        name = variant(self.rng, self.rng.choice(mloop.names)[0])
        rc, lh = L.get_item_loop(ch, name)
        self.expect('cif_container_get_item_loop', rc, {CIF_OK}, 'looking up %r' % name)
        return lh

    # ---- value plumbing ----
    def mk(self, pv):
        return self.L.make_value(pv) if pv is not None else None

    def read(self, vptr):
        return VM.canon(self.L.read_value(vptr))
