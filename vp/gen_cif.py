"""Independent CIF writer: abstract content -> CIF 2.0 / CIF 1.1 text in a randomly drawn *layout*.

Written from the CIF 2.0 / 1.1 specifications, not from the library: admissibility of each presentation of a value
(whitespace-delimited, 'x', "x", '''x''', \"\"\"x\"\"\", text field, line-folded / prefixed text field) is decided here,
and the text-field protocols are implemented here.  Because the expectation of a parse is the abstract content the
document was generated from, two layouts of the same content are automatically required to agree.

Abstract content
    doc     = [block, ...]
    block   = {'code': str, 'entries': [entry, ...]}
    entry   = ('item', name, value) | ('loop', [name, ...], [[value, ...], ...]) | ('frame', block)
    value   = model value (lib.read_value format); numbers are written as their text, unquoted
"""
import re

from . import gen_values as G

LINE_LIMIT = 2048


# ---- character repertoire -----------------------------------------------------------------------------------------

def cif2_char_ok(c):
    o = ord(c)
    if o < 0x20:
        return c in '\t\n'
    if o == 0x7f or o == 0xfeff:
        return False
    if 0xd800 <= o <= 0xdfff or 0xfdd0 <= o <= 0xfdef or (o & 0xfffe) == 0xfffe:
        return False
    return True


def cif1_char_ok(c):
    o = ord(c)
    return c in '\t\n' or 0x20 <= o <= 0x7e


def text_ok(s, version=2):
    ok = cif2_char_ok if version == 2 else cif1_char_ok
    return all(ok(c) for c in s)


# ---- admissibility of presentations -------------------------------------------------------------------------------

def unquoted_ok(text, version=2):
    """can text be presented whitespace-delimited (not at the start of a line if it begins with ';')"""
    if text == '' or text in ('?', '.'):
        return False
    if any(c in ' \t\n' for c in text):
        return False
    if G.is_reserved(text):                 # reserved first characters _ # $ ' "  and reserved words
        return False
    if version == 2:
        if any(c in '[]{}' for c in text):
            return False
    else:
        if text[0] in '[]':
            return False
    return text_ok(text, version)


def max_line(text):
    return max(len(l) for l in text.split('\n'))


def quoted_ok(text, q, version=2):
    if '\n' in text or len(text) + 2 > LINE_LIMIT:
        return False
    if version == 2:
        return q not in text
    # CIF 1.1: the delimiter may appear inside when it is not followed by white space
    for i, c in enumerate(text):
        if c == q and (i + 1 == len(text) or text[i + 1] in ' \t'):
            return False
    return True


def triple_ok(text, q):
    if q * 3 in text or text.endswith(q):
        return False
    lines = text.split('\n')
    if len(lines[0]) + 3 > LINE_LIMIT or len(lines[-1]) + 3 > LINE_LIMIT:
        return False
    if len(lines) == 1 and len(text) + 6 > LINE_LIMIT:
        return False
    return max_line(text) <= LINE_LIMIT


def plain_text_ok(text, protocols_on=True):
    """a text field without fold / prefix protocol"""
    if '\n;' in text:
        return False
    lines = text.split('\n')
    if len(lines[0]) + 1 > LINE_LIMIT or max_line(text) > LINE_LIMIT:
        return False
    if protocols_on and not text.startswith(';'):
        if lines[0].rstrip(' \t').endswith('\\'):
            return False          # would read as a fold / prefix marker
    return True


PREFIXES = ['> ', '>', '#', '  ', 'CIF>', '|', 'x', '>>>>>>>>']


def fold_segments(rng, line, room, prefixed):
    """split one content line into physical segments of at most `room` characters; no segment after the first may
    start with ';' unless the field is prefixed"""
    if len(line) <= room and rng.random() < 0.5:
        return [line]
    segs = []
    rest = line
    while len(rest) > room or (rest and rng.random() < 0.3 and len(rest) > 1):
        hi = min(room, len(rest) - 1)
        if hi < 1:
            break
        cut = rng.randint(1, hi)
        if rng.random() < 0.3:
            cut = hi
        # do not cut so that the continuation starts with ';' (it would close the field) ...
        tries = 0
        while not prefixed and rest[cut] == ';' and tries < 50:
            cut = cut - 1 if cut > 1 else min(hi, cut + 1)
            tries += 1
            if cut < 1:
                break
        if not prefixed and rest[cut] == ';':
            # a run of semicolons longer than a line cannot be folded without the prefix protocol
            raise ValueError('cannot fold')
        segs.append(rest[:cut])
        rest = rest[cut:]
    segs.append(rest)
    return segs


def encode_text_field(rng, text, fold, prefix):
    """body of a text field *after* the opening ';' and up to (excluding) the closing newline-semicolon"""
    if not fold and not prefix:
        return text
    pre = rng.choice(PREFIXES) if prefix else ''
    trail = rng.choice(['', '', ' ', '\t ', '  '])
    first = pre + ('\\' if prefix else '') + ('\\' if fold else '') + trail
    out = [first]
    room = LINE_LIMIT - len(pre) - 3
    if rng.random() < 0.7:
        room = min(room, rng.choice([8, 30, 80, 200, room]))
    for line in text.split('\n'):
        if fold:
            segs = fold_segments(rng, line, max(room, 2), bool(prefix))
            for k, seg in enumerate(segs):
                last = (k == len(segs) - 1)
                if not last:
                    out.append(pre + seg + '\\' + rng.choice(['', '', ' ', '\t']))
                else:
                    if seg.rstrip(' \t').endswith('\\'):
                        # a real trailing backslash must be protected by an extra fold
                        out.append(pre + seg + '\\')
                        out.append(pre)
                    else:
                        out.append(pre + seg)
        else:
            out.append(pre + line)
    return '\n'.join(out)


def key_forms(key):
    """quoted presentations of a table key; the colon must follow the closing delimiter on the same line"""
    forms = []
    for q in ("'", '"'):
        if quoted_ok(key, q, 2) and len(key) + 3 <= LINE_LIMIT:
            forms.append(q)
    for q in ("'", '"'):
        if triple_ok(key, q):
            lines = key.split('\n')
            if (len(lines) == 1 and len(key) + 7 <= LINE_LIMIT) or (len(lines) > 1 and len(lines[-1]) + 4 <= LINE_LIMIT):
                forms.append(q * 3)
    return forms


def expressible(v, version=2):
    """can the value appear in a well-formed document of the dialect"""
    k = v[0]
    if k in ('unk', 'na'):
        return True
    if k == 'numb':
        return not v[2]
    if k == 'char':
        if not text_ok(v[1], version):
            return False
        if not v[2]:
            return unquoted_ok(v[1], version)
        return bool(char_forms(v[1], version))
    if version != 2:
        return False
    if k == 'list':
        return all(expressible(e) for e in v[1])
    if k == 'table':
        return all(text_ok(key) and key_forms(key) and expressible(e) for key, e in v[1])
    return False


def char_forms(text, version=2, fold_on=True):
    """admissible quoted presentations of a quoted string"""
    forms = []
    for q in ("'", '"'):
        if quoted_ok(text, q, version):
            forms.append(('q', q))
    if version == 2:
        for q in ("'", '"'):
            if triple_ok(text, q):
                forms.append(('t', q))
    protocols = (version == 2)
    if plain_text_ok(text, protocols):
        forms.append(('text', False, False))
    if protocols:
        if '\n;' not in text and not text.startswith(';'):
            forms.append(('text', True, False))
        forms.append(('text', False, True) if max_line(text) + 9 <= LINE_LIMIT else ('text', True, True))
        forms.append(('text', True, True))
    return forms


# ---- the writer ---------------------------------------------------------------------------------------------------

class Writer:
    def __init__(self, rng, version=2, magic=True, dense=False, comments=True, bom=False):
        self.rng = rng
        self.version = version
        self.out = []
        self.col = 0            # characters already on the current line
        self.line = 1
        self.comments = comments
        self.dense = dense
        self.tokens = []        # (kind, line) of every token written, for the checks that need positions
        self.need_ws = False
        self.forced = []        # presentations to use for the next quoted strings, in order
        self.fixed_sep = None   # when set, every required white space is exactly this string
        self.wide = 0.0         # probability that a white-space run pads the line to a column near the limit
        if bom:
            self.out.append('\ufeff')
        if magic:
            self.raw('#\\#CIF_%s' % ('2.0' if version == 2 else '1.1'))
            self.nl()
        self.presentations = {}

    # -- low level --
    def raw(self, s):
        self.out.append(s)
        n = s.count('\n')
        if n:
            self.line += n
            self.col = len(s) - s.rfind('\n') - 1
        else:
            self.col += len(s)

    def nl(self):
        self.raw('\n')
        self.need_ws = False

    def ws(self, required=True, allow_nl=True):
        """white space between tokens; comments only after white space"""
        rng = self.rng
        if self.fixed_sep is not None:
            if required:
                self.raw(self.fixed_sep)
                self.need_ws = False
            return
        if not required and rng.random() < 0.6:
            return
        if self.wide and self.col < 1800 and rng.random() < self.wide:
            # push the next token towards the line-length limit
            self.raw(rng.choice([' ', '\t']) * (rng.randint(1880, LINE_LIMIT - 1) - self.col))
            self.need_ws = False
            return
        n = 1 if (self.dense or rng.random() < 0.6) else rng.randint(1, 4)
        wrote = False
        for _ in range(n):
            r = rng.random()
            if self.col + 1 >= LINE_LIMIT - 2:
                self.nl()
            elif r < 0.5 or not allow_nl:
                self.raw(' ' if rng.random() < 0.8 else '\t')
            elif r < 0.85:
                self.nl()
            elif self.comments and (wrote or self.col == 0) and self.col < LINE_LIMIT - 60:
                self.raw('#' + rng.choice(['', ' a comment', " it's \"fine\" ; [ } data_x loop_ _n", '#\\#CIF_1.1', 'é€😀' if self.version == 2 else '~']))
                self.nl()
            else:
                self.raw(' ')
            wrote = True
        self.need_ws = False

    def fits(self, n):
        return self.col + n <= LINE_LIMIT

    def tok(self, kind, s, line_start=False):
        if line_start and self.col != 0:
            self.nl()
        if not line_start and not self.fits(len(s.split('\n')[0])):
            self.nl()
        self.tokens.append((kind, self.line))
        self.raw(s)
        self.need_ws = True

    def kw(self, word):
        rng = self.rng
        r = rng.random()
        if r < 0.6:
            return word
        if r < 0.8:
            return word.upper()
        return ''.join(c.upper() if rng.random() < 0.5 else c for c in word)

    # -- values --
    def note(self, what):
        self.presentations[what] = self.presentations.get(what, 0) + 1

    def value(self, v, force=None):
        """writes one value; the caller has already written the separating white space"""
        k = v[0]
        rng = self.rng
        if k == 'unk':
            self.tok('value', '?')
            self.note('unk')
        elif k == 'na':
            self.tok('value', '.')
            self.note('na')
        elif k == 'numb' or (k == 'char' and not v[2]):
            t = v[1]
            if not self.fits(len(t)):
                self.nl()
            if t.startswith(';') and self.col == 0:
                self.raw(' ')       # a semicolon in column 1 would open a text field
            self.tokens.append(('value', self.line))
            self.raw(t)
            self.need_ws = True
            self.note('unquoted')
        elif k == 'char':
            forms = char_forms(v[1], self.version)
            if self.forced:
                force = self.forced.pop(0)
            f = force if force in forms else rng.choice(forms)
            self.string(v[1], f)
        elif k == 'list':
            self.tok('olist', '[')
            self.ws(False)
            for i, e in enumerate(v[1]):
                if i:
                    self.ws(True)
                self.value(e)
            self.ws(False)
            self.tok('clist', ']')
            self.note('list')
        elif k == 'table':
            self.tok('otable', '{')
            self.ws(False)
            for i, (key, e) in enumerate(v[1]):
                if i:
                    self.ws(True)
                q = rng.choice(key_forms(key))
                s = q + key + q + ':'
                if not self.fits(len(s.split('\n')[0])):
                    self.nl()
                self.tokens.append(('key', self.line))
                self.raw(s)
                self.ws(False)
                self.value(e)
            self.ws(False)
            self.tok('ctable', '}')
            self.note('table')
        else:
            raise ValueError(v)

    def string(self, text, form):
        rng = self.rng
        if form[0] == 'q':
            q = form[1]
            if not self.fits(len(text) + 2):
                self.nl()
            self.tok('value', q + text + q)
            self.note('quote' + q)
        elif form[0] == 't':
            q = form[1] * 3
            first = text.split('\n')[0]
            if not self.fits(len(first) + 3 + (3 if '\n' not in text else 0)):
                self.nl()
            self.tok('value', q + text + q)
            self.note('triple' + form[1])
        else:
            _, fold, prefix = form
            try:
                body = encode_text_field(rng, text, fold, prefix)
            except ValueError:
                body = encode_text_field(rng, text, True, True)
                fold = prefix = True
            self.tok('value', ';' + body + '\n;', line_start=True)
            self.note('text%s%s' % ('+fold' if fold else '', '+prefix' if prefix else ''))

    # -- structure --
    def item(self, name, v):
        self.sep()
        self.tok('name', name, line_start=self.rng.random() < 0.5)
        self.ws(True)
        self.value(v)

    def sep(self):
        if self.need_ws or self.col != 0:
            self.ws(True)

    def loop(self, names, packets):
        self.sep()
        self.tok('loop', self.kw('loop_'))
        for n in names:
            self.ws(True)
            self.tok('name', n)
        for p in packets:
            for v in p:
                self.ws(True)
                self.value(v)

    def container(self, blk, is_block=True):
        self.sep()
        self.tok('block' if is_block else 'frame', self.kw('data_' if is_block else 'save_') + blk['code'],
                 line_start=self.rng.random() < 0.7)
        for e in blk['entries']:
            if e[0] == 'item':
                self.item(e[1], e[2])
            elif e[0] == 'loop':
                self.loop(e[1], e[2])
            else:
                self.container(e[1], False)
        if not is_block:
            self.sep()
            self.tok('frame_end', self.kw('save_'))

    def document(self, doc, trailing=None):
        for b in doc:
            self.container(b, True)
        rng = self.rng
        t = trailing if trailing is not None else rng.choice(['\n', '\n', '', ' ', '\n#end', '\n\n', '\t\n'])
        if t.startswith('#') and self.need_ws:
            t = ' ' + t
        if self.col + len(t.split('\n')[0]) > LINE_LIMIT:
            t = '\n'
        if self.out and self.out[-1].endswith(';') and self.tokens and t == '':
            pass
        self.raw(t)
        text = ''.join(self.out)
        too_long = [i + 1 for i, l in enumerate(text.split('\n')) if len(l) > LINE_LIMIT]
        if too_long:
            raise AssertionError('writer produced over-length line(s) %r' % too_long[:5])
        return text


# ---- content generation -----------------------------------------------------------------------------------------------

NAME_CHARS2 = 'abcdefXYZ0123456789._-[]{}()/%&*+=<>|~^@!`,\'"#$;:\\?éßÅµΔΩЖ中가😀\U00010000'
NAME_CHARS1 = 'abcdefXYZ0123456789._-[]{}()/%&*+=<>|~^@!`,\'"#$;:\\?'


def rand_name(rng, used, version=2):
    from . import names as N
    for _ in range(100):
        n = rng.choice([1, 2, 3, 5, 9, 20])
        chars = NAME_CHARS2 if version == 2 else NAME_CHARS1
        s = '_' + ''.join(rng.choice(chars) for _ in range(n))
        nn = N.norm(s)
        if nn not in used:
            used.add(nn)
            return s
    raise RuntimeError('name pool exhausted')


def rand_code(rng, used, version=2):
    from . import names as N
    for _ in range(100):
        n = rng.choice([1, 2, 4, 8, 30])
        chars = NAME_CHARS2 if version == 2 else NAME_CHARS1
        s = ''.join(rng.choice(chars) for _ in range(n))
        nn = N.norm(s)
        if nn not in used:
            used.add(nn)
            return s
    raise RuntimeError('code pool exhausted')


def clean_text(s, version=2):
    ok = cif2_char_ok if version == 2 else cif1_char_ok
    return ''.join(c for c in s if ok(c))


def rand_doc_value(rng, version=2, depth=2, maxlen=12):
    """a value that is expressible in the dialect"""
    for _ in range(200):
        if version == 2:
            v = G.rand_value(rng, depth=depth, width=3, maxlen=maxlen)
            v = sanitize(v, 2)
        else:
            v = G.rand_scalar(rng, maxlen)
            v = sanitize(v, 1)
        if v is not None and expressible(v, version):
            return v
    return ('char', 'fallback', True)


def sanitize(v, version):
    k = v[0]
    if k in ('unk', 'na'):
        return v
    if k == 'numb':
        return ('numb', v[1], False)
    if k == 'char':
        t = clean_text(v[1], version)
        if not v[2] and not unquoted_ok(t, version):
            return ('char', t, True)
        return ('char', t, v[2])
    if k == 'list':
        return ('list', tuple(x for x in (sanitize(e, version) for e in v[1]) if x is not None))
    if k == 'table':
        out = {}
        import unicodedata
        for key, e in v[1]:
            key = clean_text(key, version)
            if not key_forms(key):
                continue
            se = sanitize(e, version)
            if se is not None:
                out[unicodedata.normalize('NFC', key)] = (key, se)
        return ('table', tuple(out.values()))
    return None


def rand_container(rng, version, used_codes, allow_frames=True, size=None):
    used = set()
    entries = []
    n = size if size is not None else rng.choice([0, 1, 2, 3, 5, 8])
    for _ in range(n):
        r = rng.random()
        if r < 0.6:
            entries.append(('item', rand_name(rng, used, version), rand_doc_value(rng, version)))
        elif r < 0.85:
            k = rng.choice([1, 2, 3, 5])
            names = [rand_name(rng, used, version) for _ in range(k)]
            rows = rng.choice([1, 2, 3, 6])
            packets = [[rand_doc_value(rng, version, depth=1) for _ in range(k)] for _ in range(rows)]
            entries.append(('loop', names, packets))
        elif allow_frames:
            fcodes = used_codes.setdefault('frames', set())
            entries.append(('frame', rand_container(rng, version, {'frames': set()}, False, rng.choice([0, 1, 3]))))
            # frame codes must be unique within the block
            code = entries[-1][1]['code']
            from . import names as N
            if N.norm(code) in fcodes:
                entries.pop()
            else:
                fcodes.add(N.norm(code))
    cused = used_codes.setdefault('codes', set())
    return {'code': rand_code(rng, cused, version), 'entries': entries}


def rand_doc(rng, version=2, max_blocks=3):
    used = {'codes': set()}
    nb = rng.choice([1, 1, 2, max_blocks])
    doc = []
    for _ in range(nb):
        doc.append(rand_container(rng, version, {'codes': used['codes'], 'frames': set()}))
    return doc


# ---- expectation: abstract content -> canonical dump format (vp/dump.py) ----------------------------------------------

def parsed_value(v, version=2):
    """how the documented parse reads a presented value"""
    from .dump import canon
    k = v[0]
    if k == 'numb':
        return ('char', v[1], False)
    if k == 'char':
        if version == 1 and not v[2] and any(c in '[]{}' for c in v[1]):
            return ('char', v[1], True)
        return v
    if k == 'list':
        return ('list', tuple(parsed_value(e, version) for e in v[1]))
    if k == 'table':
        return canon(('table', tuple((key, parsed_value(e, version)) for key, e in v[1])))
    return v


def expected_container(blk, version=2):
    from . import names as N
    frames = []
    loops = []
    scalars = []
    for e in blk['entries']:
        if e[0] == 'item':
            scalars.append((e[1], parsed_value(e[2], version)))
        elif e[0] == 'loop':
            names = e[1]
            pk = []
            for p in e[2]:
                pk.append(tuple(sorted((N.norm(n), parsed_value(v, version)) for n, v in zip(names, p))))
            pk.sort(key=repr)
            loops.append((None, tuple(sorted(names)), tuple(pk)))
        else:
            frames.append(expected_container(e[1], version))
    if scalars:
        loops.append(('', tuple(sorted(n for n, _ in scalars)),
                      (tuple(sorted((N.norm(n), v) for n, v in scalars)),)))
    frames.sort(key=lambda c: c[0])
    loops.sort(key=repr)
    return (blk['code'], tuple(frames), tuple(loops))


def expected_dump(doc, version=2):
    return ('cif', tuple(sorted((expected_container(b, version) for b in doc), key=lambda c: c[0])))


def single_item_document(rng, name, v):
    w = Writer(rng, 2)
    return w.document([{'code': 'v', 'entries': [('item', name, v)]}])


def write(rng, doc, version=2, **kw):
    w = Writer(rng, version, **kw)
    text = w.document(doc)
    return text, w
