"""Entry point shared by all checks:  ./check Cxx --tier quick|thorough [--seed N] [--replay FILE]"""
import argparse
import importlib
import json
import os
import sys
import time
import traceback

from . import build, findings, pool

VERIF = os.path.dirname(os.path.dirname(os.path.abspath(__file__)))
EVIDENCE_DIR = os.path.join(VERIF, 'evidence')


class Env:
    def __init__(self, prop, tier, seed):
        self.prop = prop
        self.tier = tier
        self.seed = seed
        self.quick = (tier == 'quick')
        self._libs = {}
        self.single = None

    def lib(self, variant='asan'):
        # tools/coverage.py: the same workloads against the gcov build (no sanitizer), to measure reach
        if variant == 'asan' and os.environ.get('VP_LIB_VARIANT'):
            variant = os.environ['VP_LIB_VARIANT']
        if variant not in self._libs:
            self._libs[variant] = build.build(variant)
        return self._libs[variant]

    def run_pool(self, module, params=None, nshards=16, **kw):
        p = dict(params or {})
        p.setdefault('seed', self.seed)
        p.setdefault('tier', self.tier)
        if self.single is not None:
            p['_single'] = self.single
        res = pool.run(module, p, nshards=nshards, libpath=self.lib(kw.pop('variant', 'asan')), **kw)
        self.number_values_probed = getattr(self, 'number_values_probed', 0) + res.count('number_values_probed')
        return res


def write_evidence(prop, tier, seed, level, coverage, wall, violations, assumptions):
    os.makedirs(EVIDENCE_DIR, exist_ok=True)
    ev = dict(property_id=prop, tier=tier, seed=seed, level=level, coverage=coverage, wall_s=round(wall, 2),
              violations=violations, assumptions=assumptions)
    tmp = os.path.join(EVIDENCE_DIR, '.%s.json.tmp' % prop)
    with open(tmp, 'w') as f:
        json.dump(ev, f, indent=1, sort_keys=True, default=repr)
    os.replace(tmp, os.path.join(EVIDENCE_DIR, prop + '.json'))


def main(argv=None):
    ap = argparse.ArgumentParser()
    ap.add_argument('prop')
    ap.add_argument('--tier', default=os.environ.get('VERIF_TIER', 'quick'), choices=['quick', 'thorough'])
    ap.add_argument('--seed', type=int, default=int(os.environ.get('VERIF_SEED', '1') or 1))
    ap.add_argument('--replay')
    args = ap.parse_args(argv)
    prop = args.prop
    t0 = time.time()
    try:
        mod = importlib.import_module('vp.checks.' + prop)
    except ImportError as e:
        print('no such check: %s (%s)' % (prop, e), file=sys.stderr)
        return 2
    env = Env(prop, args.tier, args.seed)
    try:
        if args.replay:
            with open(args.replay) as f:
                rec = json.load(f)
            env.tier = rec.get('tier', env.tier)
            env.seed = rec.get('seed', env.seed)
            env.quick = env.tier == 'quick'
            out = mod.replay(env, rec)
        else:
            out = mod.run(env)
    except build.BuildError as e:
        print('INCONCLUSIVE: build failed\n%s' % e, file=sys.stderr)
        return 2
    except Exception:
        traceback.print_exc()
        print('INCONCLUSIVE: harness failure', file=sys.stderr)
        return 2
    wall = time.time() - t0
    known = findings.Known()
    by_key = {}
    for v in out.get('violations', []):
        by_key.setdefault(v['key'], []).append(v)
    unknown = 0
    known_hit = 0
    for key in sorted(by_key):
        vs = by_key[key]
        text = known.lookup(prop, key)
        if text is not None:
            known_hit += 1
            print('KNOWN-FINDING: property=%s %s [key=%s, seen %d times]' % (prop, text, key, len(vs)))
            continue
        unknown += 1
        rec = dict(tier=env.tier, seed=env.seed, occurrences=len(vs), detail=vs[0].get('detail'),
                   case=vs[0].get('case'), more_cases=[v.get('case') for v in vs[1:4]])
        path = findings.write_replay(prop, key, rec)
        print('VIOLATION property=%s replay=%s' % (prop, path))
        d = vs[0].get('detail')
        print('  key=%s (%d occurrence%s)' % (key, len(vs), '' if len(vs) == 1 else 's'))
        if d:
            for line in str(d).splitlines()[:12]:
                print('    ' + line[:300])
    cov = dict(out.get('coverage', {}))
    cov.setdefault('evaluations', 0)
    cov.setdefault('distinct_nontrivial', 0)
    cov.setdefault('rule', '')
    cov.setdefault('samples', [])
    cov['known_findings_matched'] = known_hit
    if getattr(env, 'number_values_probed', 0):
        cov['always_on_number_probe_values_checked'] = env.number_values_probed
    cov['unlisted_violation_keys'] = unknown
    cov['inconclusive'] = out.get('inconclusive', [])
    if not args.replay and not os.environ.get('VP_NO_EVIDENCE'):
        write_evidence(prop, env.tier, env.seed, out.get('level', 'exploration'), cov, wall, unknown,
                       out.get('assumptions', []))
    print('%s tier=%s seed=%d: %d evaluations, %d distinct non-trivial, %d unlisted violation key(s), '
          '%d known finding(s), %.1fs' % (prop, env.tier, env.seed, cov['evaluations'], cov['distinct_nontrivial'],
                                          unknown, known_hit, wall))
    if unknown:
        return 1
    if out.get('inconclusive'):
        for why in out['inconclusive'][:10]:
            print('INCONCLUSIVE: %s' % why, file=sys.stderr)
        return 2
    return 0


if __name__ == '__main__':
    sys.exit(main())
