#!/usr/bin/env python3
"""tools/automutate.py [--n N] [--seed S] [--files a.c,b.c] [--out selftest/auto]

Monitor validation by sampled operator mutation (complements the hand-written and the sub-agent changes): picks N
random sites on library lines that the quick workloads execute (coverage/uncovered.txt lists the others), applies one
classic operator (relational / logical / equality flip, off-by-one, boolean constant, dropped assignment), builds the
mutated copy outside /repo and runs the quick checks against it, most relevant first, until one reports a violation.
Results go to <out>/results.json; the diff of every mutant no check caught is kept in <out>/ for triage (most are
equivalent or outside the twenty properties - the file says which after triage).  Never touches /repo."""
import json
import os
import random
import re
import shutil
import subprocess
import sys
import tempfile
import time

VERIF = os.path.dirname(os.path.dirname(os.path.abspath(__file__)))
FILES = ['parser.c', 'ciffile.c', 'value.c', 'container.c', 'loop.c', 'pktitr.c', 'cif.c', 'map.c', 'packet.c', 'utils.c']
ALL = ['C%02d' % i for i in range(1, 21)]
ORDER = {
    'parser.c': ['C01', 'C12', 'C08', 'C15', 'C03', 'C11', 'C18', 'C13', 'C02'],
    'ciffile.c': ['C02', 'C13', 'C11', 'C01', 'C18', 'C03'],
    'value.c': ['C10', 'C19', 'C07', 'C18', 'C02', 'C17'],
    'container.c': ['C04', 'C05', 'C07', 'C14', 'C17', 'C09'],
    'loop.c': ['C04', 'C05', 'C06', 'C07', 'C17'],
    'pktitr.c': ['C06', 'C04', 'C07', 'C05', 'C17'],
    'cif.c': ['C14', 'C04', 'C20', 'C09', 'C17', 'C02'],
    'map.c': ['C19', 'C09', 'C07', 'C06'],
    'packet.c': ['C19', 'C09', 'C06', 'C07'],
    'utils.c': ['C09', 'C16', 'C04', 'C19', 'C18'],
}

OPERATORS = [
    ('eq->ne', re.compile(r'(?<![=!<>])==(?!=)'), '!='),
    ('ne->eq', re.compile(r'!=(?!=)'), '=='),
    ('le->lt', re.compile(r'(?<![<-])<=(?!=)'), '<'),
    ('ge->gt', re.compile(r'(?<![>-])>=(?!=)'), '>'),
    ('lt->le', re.compile(r'(?<![<-]) < (?![<=])'), ' <= '),
    ('gt->ge', re.compile(r'(?<![>-]) > (?![>=])'), ' >= '),
    ('and->or', re.compile(r'&&'), '||'),
    ('or->and', re.compile(r'\|\|'), '&&'),
    ('plus1->plus0', re.compile(r'\+ 1\b(?!\.)'), '+ 0'),
    ('minus1->minus0', re.compile(r'- 1\b(?!\.)'), '- 0'),
    ('inc->noinc', re.compile(r'\+= 1;'), '+= 0;'),
    ('true->false', re.compile(r'\bCIF_TRUE\b'), 'CIF_FALSE'),
    ('false->true', re.compile(r'\bCIF_FALSE\b'), 'CIF_TRUE'),
    ('drop-assignment', re.compile(r'^(\s+)[A-Za-z_][\w\->\.\[\]\*\(\) ]* (?:=|\+=|-=) [^=].*;\s*$'), None),
]
SKIP_LINE = re.compile(r'^\s*(#|/\*|\*|//|assert\b|DEBUG|static const|extern|typedef)|FAILURE_|TRACELINE|^\s*$')


def sites(fname, uncovered):
    path = os.path.join('/repo/src', fname)
    out = []
    in_comment = False
    for ln, line in enumerate(open(path, errors='replace').read().split('\n'), 1):
        s = line.strip()
        if in_comment:
            if '*/' in s:
                in_comment = False
            continue
        if s.startswith('/*') and '*/' not in s:
            in_comment = True
            continue
        if (fname, ln) in uncovered or SKIP_LINE.search(line):
            continue
        code = line.split('/*')[0]
        for name, rx, repl in OPERATORS:
            for m in rx.finditer(code):
                if repl is None:
                    if ' = ' in code and re.search(r'\b(int|size_t|UChar|char|double|struct|const|unsigned|int32_t|ssize_t|cif_\w+_tp)\b[^=]*=', code):
                        continue        # a declaration with initialiser: dropping it would not compile
                    out.append((fname, ln, name, None, None))
                    break
                out.append((fname, ln, name, m.start(), m.end()))
    return out


def mutate_text(text, site):
    fname, ln, name, a, b = site
    lines = text.split('\n')
    line = lines[ln - 1]
    if a is None:
        indent = re.match(r'^\s*', line).group(0)
        new = indent + ';'
    else:
        repl = dict((n, r) for n, _, r in OPERATORS)[name]
        new = line[:a] + repl + line[b:]
    lines[ln - 1] = new
    return '\n'.join(lines), line, new


def run_checks(repo, order, log):
    env = dict(os.environ, CIF_REPO=repo, VP_NO_EVIDENCE='1')
    tried = []
    for c in order:
        t0 = time.time()
        r = subprocess.run([os.path.join(VERIF, 'check'), c, '--tier', 'quick'], env=env, stdout=subprocess.PIPE,
                           stderr=subprocess.STDOUT, cwd=VERIF)
        out = r.stdout.decode(errors='replace')
        keys = [l.strip()[:140] for l in out.splitlines() if l.strip().startswith('key=')]
        tried.append(c)
        if r.returncode == 1:
            return 'DETECTED', c, keys[:3], tried
        if r.returncode != 0:
            if 'build failed' in out:
                return 'NOBUILD', c, [out[-300:]], tried
            log.write('  %s inconclusive (%d) %s\n' % (c, r.returncode, out[-300:].replace('\n', ' | ')))
            log.flush()
    return 'SURVIVED', None, [], tried


def main():
    args = sys.argv[1:]
    n, seed, files, outdir = 60, 1, FILES, os.path.join(VERIF, 'selftest', 'auto')
    while args:
        a = args.pop(0)
        if a == '--n':
            n = int(args.pop(0))
        elif a == '--seed':
            seed = int(args.pop(0))
        elif a == '--files':
            files = args.pop(0).split(',')
        elif a == '--out':
            outdir = os.path.abspath(args.pop(0))
    os.makedirs(outdir, exist_ok=True)
    uncovered = set()
    up = os.path.join(VERIF, 'coverage', 'uncovered.txt')
    if os.path.exists(up):
        for line in open(up, errors='replace'):
            m = re.match(r'^([\w\.]+):(\d+):', line)
            if m:
                uncovered.add((m.group(1), int(m.group(2))))
    allsites = []
    for f in files:
        allsites += sites(f, uncovered)
    rng = random.Random(seed)
    rng.shuffle(allsites)
    # at most one mutant per (file, line)
    seen = set()
    picked = []
    for s in allsites:
        if (s[0], s[1]) in seen:
            continue
        seen.add((s[0], s[1]))
        picked.append(s)
        if len(picked) >= n:
            break
    res_path = os.path.join(outdir, 'results.json')
    results = json.load(open(res_path)) if os.path.exists(res_path) else {}
    log = open(os.path.join(outdir, 'log.txt'), 'a')
    print('%d candidate sites, %d picked (seed %d)' % (len(allsites), len(picked), seed), flush=True)
    for site in picked:
        fname, ln, name, a, b = site
        mid = '%s:%d:%s' % (fname, ln, name)
        if mid in results:
            continue
        scratch = tempfile.mkdtemp(prefix='cifauto.', dir='/var/tmp')
        repo = os.path.join(scratch, 'repo')
        try:
            os.makedirs(repo)
            for d in ('src', 'uthash', 'misc'):
                shutil.copytree(os.path.join('/repo', d), os.path.join(repo, d),
                                ignore=shutil.ignore_patterns('*.o', '*.lo', '.libs', 'tests', '*.log', '*.trs'))
            shutil.copy('/repo/config.h', repo)
            p = os.path.join(repo, 'src', fname)
            text = open(p, errors='surrogateescape').read()
            new_text, old_line, new_line = mutate_text(text, site)
            open(p, 'w', errors='surrogateescape').write(new_text)
            order = ORDER[fname] + [c for c in ALL if c not in ORDER[fname]]
            t0 = time.time()
            verdict, by, keys, tried = run_checks(repo, order, log)
            rec = dict(file=fname, line=ln, operator=name, old=old_line.strip()[:200], new=new_line.strip()[:200],
                       verdict=verdict, by=by, keys=keys, checks_tried=len(tried), seconds=round(time.time() - t0))
            results[mid] = rec
            if verdict == 'SURVIVED':
                d = subprocess.run(['diff', '-u', os.path.join('/repo/src', fname), p], stdout=subprocess.PIPE).stdout.decode(errors='replace')
                d = d.replace('/repo/src/' + fname, 'a/src/' + fname, 1).replace(p, 'b/src/' + fname, 1)
                open(os.path.join(outdir, mid.replace(':', '_').replace('>', '') + '.diff'), 'w').write(d)
            print('%-40s %-9s %-4s %4ds  %s' % (mid, verdict, by or '', rec['seconds'], new_line.strip()[:90]), flush=True)
            json.dump(results, open(res_path, 'w'), indent=1, sort_keys=True)
        finally:
            shutil.rmtree(scratch, ignore_errors=True)
    tot = len(results)
    det = sum(1 for r in results.values() if r['verdict'] == 'DETECTED')
    print('total %d: detected %d, survived %d, no build %d' % (tot, det, sum(1 for r in results.values() if r['verdict'] == 'SURVIVED'),
                                                             sum(1 for r in results.values() if r['verdict'] == 'NOBUILD')))


if __name__ == '__main__':
    main()
