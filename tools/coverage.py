#!/usr/bin/env python3
"""tools/coverage.py [--tier quick] [Cxx ...]

Reach measurement (not a check): runs the named checks' workloads (default: all) against the gcov build of the
working tree and reports, per library source file, the lines and functions no workload executed.  The output
(/verif/coverage/summary.json and uncovered.txt) is used to aim workloads at code the monitors have not yet seen.
Verdicts of the runs are ignored here; crashes that SIGKILL a worker lose that worker's counters (under-reporting,
never over-reporting)."""
import json
import os
import re
import shutil
import subprocess
import sys
import tempfile

VERIF = os.path.dirname(os.path.dirname(os.path.abspath(__file__)))
sys.path.insert(0, VERIF)
from vp import build  # noqa: E402


def main():
    args = sys.argv[1:]
    tier = 'quick'
    if args and args[0] == '--tier':
        tier = args[1]
        del args[:2]
    checks = args or ['C%02d' % i for i in range(1, 21)]
    so = build.build('cov')
    bdir = os.path.dirname(so)
    out = tempfile.mkdtemp(prefix='vpcov-')
    env = dict(os.environ, VP_LIB_VARIANT='cov', GCOV_PREFIX=out, GCOV_PREFIX_STRIP='99', VP_NO_EVIDENCE='1')
    # GCOV_PREFIX_STRIP larger than the path depth leaves just the file name
    for c in checks:
        r = subprocess.run([os.path.join(VERIF, 'check'), c, '--tier', tier], env=env, stdout=subprocess.PIPE,
                           stderr=subprocess.STDOUT)
        tail = r.stdout.decode(errors='replace').strip().splitlines()[-1:] or ['']
        print('%s exit=%d %s' % (c, r.returncode, tail[0][:160]), flush=True)
    gcda = []
    for root, _, names in os.walk(out):
        for n in names:
            if n.endswith('.gcda'):
                gcda.append(os.path.join(root, n))
    work = os.path.join(out, 'gcov')
    os.makedirs(work)
    for g in gcda:
        shutil.copy(g, work)
    for n in os.listdir(bdir):
        if n.endswith('.gcno'):
            shutil.copy(os.path.join(bdir, n), work)
    summary = {}
    unc_lines = []
    # the objects were compiled in a temporary directory that was renamed afterwards: give gcov that path back
    blob = open(os.path.join(bdir, 'cif.gcno'), 'rb').read()
    m = re.search(rb'(/[^\0]*?/\.tmp-cov-[^/\0]+)/', blob)
    link = m.group(1).decode() if m else None
    if link and not os.path.exists(link):
        os.symlink(bdir, link)
    else:
        link = None
    for n in build.LIB_SOURCES:
        if not os.path.exists(os.path.join(work, n + '.gcda')):
            print('no counters for', n)
            continue
        subprocess.run(['gcov', '-b', '-f', n + '.gcda'], cwd=work, stdout=subprocess.PIPE, stderr=subprocess.PIPE)
    for n in sorted(os.listdir(work)):
        if not n.endswith('.gcov'):
            continue
        base = n[:-5]
        if not (base.endswith('.c') or base.endswith('.h')):
            continue
        tot = hit = 0
        cur = []
        for line in open(os.path.join(work, n), errors='replace'):
            m = re.match(r'^\s*([^:]+):\s*(\d+):(.*)$', line)
            if not m:
                continue
            cnt, ln, text = m.group(1).strip(), int(m.group(2)), m.group(3)
            if cnt == '-' or ln == 0:
                continue
            tot += 1
            if cnt.startswith('#####') or cnt.startswith('====='):
                cur.append((ln, text))
            else:
                hit += 1
        summary[base] = dict(lines=tot, executed=hit, pct=round(100.0 * hit / tot, 1) if tot else None)
        for ln, text in cur:
            unc_lines.append('%s:%d:%s' % (base, ln, text.rstrip()))
    dest = os.path.join(VERIF, 'coverage')
    os.makedirs(dest, exist_ok=True)
    json.dump(dict(tier=tier, checks=checks, files=summary), open(os.path.join(dest, 'summary.json'), 'w'),
              indent=1, sort_keys=True)
    with open(os.path.join(dest, 'uncovered.txt'), 'w') as f:
        f.write('\n'.join(unc_lines) + '\n')
    for k, v in sorted(summary.items()):
        print('%-24s %5d / %5d  %s%%' % (k, v['executed'], v['lines'], v['pct']))
    shutil.rmtree(out, ignore_errors=True)
    if link:
        os.unlink(link)


if __name__ == '__main__':
    main()
