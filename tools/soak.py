#!/usr/bin/env python3
"""tools/soak.py <tier> <seed> [<seed> ...] [-- Cxx ...]: runs the checks under the given seeds from fresh processes (evidence is
not rewritten) and prints one line per run; any exit status other than 0 is listed again at the end."""
import os
import subprocess
import sys
import time

VERIF = os.path.dirname(os.path.dirname(os.path.abspath(__file__)))
args = sys.argv[1:]
tier = args.pop(0)
checks = ['C%02d' % i for i in range(1, 21)]
if '--' in args:
    k = args.index('--')
    checks = args[k + 1:]
    args = args[:k]
bad = []
for seed in args:
    for c in checks:
        t0 = time.time()
        r = subprocess.run([os.path.join(VERIF, 'check'), c, '--tier', tier, '--seed', seed], stdout=subprocess.PIPE, stderr=subprocess.STDOUT,
                           env=dict(os.environ, VP_NO_EVIDENCE='1'), cwd=VERIF)
        out = r.stdout.decode(errors='replace')
        last = [l for l in out.splitlines() if l.startswith(c + ' tier=')]
        print('seed %s %s exit %d %.0fs | %s' % (seed, c, r.returncode, time.time() - t0, last[-1][:160] if last else out[-300:].replace('\n', ' / ')), flush=True)
        if r.returncode != 0:
            bad.append((seed, c, out[-1500:]))
print('=== %d run(s) with non-zero exit' % len(bad))
for seed, c, out in bad:
    print('--- seed %s %s\n%s' % (seed, c, out))
