#!/usr/bin/env python3
"""tools/mkmutant.py <name> <file relative to repo> <old text> <new text>   -> selftest/mutants/<name>.diff"""
import difflib, os, sys
name, rel, old, new = sys.argv[1:5]
src = open(os.path.join('/repo', rel)).read()
assert src.count(old) == 1, 'old text occurs %d times' % src.count(old)
mut = src.replace(old, new)
d = difflib.unified_diff(src.splitlines(True), mut.splitlines(True), 'a/' + rel, 'b/' + rel)
out = os.path.join(os.path.dirname(os.path.dirname(os.path.abspath(__file__))), 'selftest', 'mutants', name + '.diff')
open(out, 'w').writelines(d)
print(out)
