#!/usr/bin/env python3
"""Regenerates /verif/MANIFEST.json from the table below (kept in one place so that it always validates)."""
import json
import os
import sys

VERIF = os.path.dirname(os.path.dirname(os.path.abspath(__file__)))

CHECKS = {}      # id -> dict(level, text, note, technique, design_ref)
NOT_APPLICABLE = {}


def claim(pid, level, text, note, technique, design_ref):
    CHECKS[pid] = dict(level=level, text=text, note=note, technique=technique, design_ref=design_ref)


exec(open(os.path.join(VERIF, 'tools', 'claims.py')).read())

ALL = ['C%02d' % i for i in range(1, 21)]


def main():
    checks = []
    for pid in ALL:
        if pid not in CHECKS:
            continue
        c = CHECKS[pid]
        checks.append(dict(
            property_id=pid,
            quick_cmd='./check %s --tier quick' % pid,
            thorough_cmd='./check %s --tier thorough' % pid,
            evidence_file='/verif/evidence/%s.json' % pid,
            replay_cmd_template='./check %s --replay {path}' % pid,
            engine='vp',
            level_claimed=dict(category=c['level'], text=c['text'], design_ref=c['design_ref']),
            level_note=c['note'],
            technique=c['technique'],
        ))
    na = []
    for pid in ALL:
        if pid not in CHECKS:
            na.append(dict(property_id=pid, reason=NOT_APPLICABLE.get(
                pid, 'check not built yet in this round; runtime monitoring applies (see DESIGN.md section 4)')))
    manifest = dict(
        version=1,
        setup_cmd='python3 -m vp.build asan plain asanexe fuzz',
        hooks=dict(guard='CIF_API_VERIF',
                   enable='none needed: the checks compile the working tree\'s src/*.c themselves (vp/build.py) and '
                          'observe through the public API, internal headers and link-time --wrap interposition',
                   baseline_off_cmd='cd /repo && make -k check',
                   source_commits=[], add_only=True),
        engines=[dict(name='vp', path='/verif/vp', serves_properties=sorted(CHECKS),
                      kind_free_text='Python 3 (stdlib) drivers and monitors over a ctypes binding of an '
                                     'ASan+UBSan-instrumented build of the working tree; libFuzzer and valgrind '
                                     'side runners')],
        checks=checks,
        not_applicable=na,
        notes='All checks rebuild the library from /repo\'s working tree (hash-keyed cache under /verif/build). '
              'Exit 0 = held on everything explored, 1 = VIOLATION line(s), 2 = inconclusive/harness failure.',
    )
    with open(os.path.join(VERIF, 'MANIFEST.json'), 'w') as f:
        json.dump(manifest, f, indent=1)
        f.write('\n')
    try:
        import jsonschema
        schema = json.load(open('/root/.vp/MANIFEST.schema.json'))
        jsonschema.validate(manifest, schema)
        print('MANIFEST.json valid: %d checks, %d not applicable' % (len(checks), len(na)))
    except ImportError:
        print('MANIFEST.json written (jsonschema not importable here): %d checks' % len(checks))


if __name__ == '__main__':
    main()
