# Per-property claims; executed by gen_manifest.py (claim(...) and NOT_APPLICABLE are provided by it).

claim('C20', 'exploration',
      'Exhaustive over the finite set of result codes the working tree\'s cif.h defines: each code must index '
      'inside cif_errlist and its message must be non-empty, distinct and match the keyword pattern written from '
      'that code\'s documentation; the table is read from the real, ASan-instrumented library.',
      'Trusts the keyword table (vp/checks/C20.py) as the reading of the documentation; new codes fall back to a '
      'pattern derived from the macro name.',
      'runtime monitoring: exhaustive table read-out of the instrumented library judged by a documentation-derived oracle',
      'DESIGN.md section 4, C20')

claim('C19', 'exploration',
      'Random histories (40-150 steps) of every value / list / table / packet operation, including wrong-kind calls, '
      'out-of-range indices, invalid keys and names, the documented aliasing cases and self-insertion, run against the '
      'ASan+UBSan library in lock-step with a functional reference model; every touched object is re-read after each '
      'step and all live objects every ten steps, so shared storage between clone and original shows as an unexpected '
      'change or a sanitizer report; at the end everything is released and the allocation ledger must balance.',
      'Held on the histories generated (seeded); nesting bounded by the generator (depth <= 4 plus self-insertion). '
      'Key / name equivalence of the fixed pools comes from Python unicodedata, which is final for those characters.',
      'runtime monitoring: model-based random histories under ASan/UBSan with allocation-ledger and global-state monitors',
      'DESIGN.md section 4, C19')
