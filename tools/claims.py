# Per-property claims; executed by gen_manifest.py (claim(...) and NOT_APPLICABLE are provided by it).

claim('C20', 'exploration',
      'Exhaustive over the finite set of result codes the working tree\'s cif.h defines: each code must index '
      'inside cif_errlist and its message must be non-empty, distinct and match the keyword pattern written from '
      'that code\'s documentation; the table is read from the real, ASan-instrumented library.',
      'Trusts the keyword table (vp/checks/C20.py) as the reading of the documentation; new codes fall back to a '
      'pattern derived from the macro name.',
      'runtime monitoring: exhaustive table read-out of the instrumented library judged by a documentation-derived oracle',
      'DESIGN.md section 4, C20')

claim('C19', 'exploration',
      'Random histories (40-150 steps) of every value / list / table / packet operation, including wrong-kind calls, '
      'out-of-range indices, invalid keys and names, the documented aliasing cases and self-insertion, run against the '
      'ASan+UBSan library in lock-step with a functional reference model; every touched object is re-read after each '
      'step and all live objects every ten steps, so shared storage between clone and original shows as an unexpected '
      'change or a sanitizer report; at the end everything is released and the allocation ledger must balance.',
      'Held on the histories generated (seeded); nesting bounded by the generator (depth <= 4 plus self-insertion). '
      'Key / name equivalence of the fixed pools comes from Python unicodedata, which is final for those characters.',
      'runtime monitoring: model-based random histories under ASan/UBSan with allocation-ledger and global-state monitors',
      'DESIGN.md section 4, C19')

claim('C04', 'exploration',
      'Random API histories (40-120 calls, 1-3 CIFs, colliding name pools in case / NFC / NFD / reordered-mark variants, '
      'invalid names, NULL and duplicate categories, empty and foreign-item packets, iterator edits with read-only calls '
      'and refused iterator requests made meanwhile, parsing into an existing CIF - also text that repeats a data name the CIF already holds -, stale loop and container handles) executed in lock-step with an executable model of the documented data model; '
      'result codes must lie in the model\'s acceptable set, every query result must equal the model\'s, and full dumps '
      '(query API only) are compared at checkpoints, after destroy / prune / iterator / parse steps and for every CIF at '
      'the end, which also shows cross-CIF interference.',
      'Held on the seeded histories generated. Where the documentation is open the model accepts several codes '
      '(DESIGN.md section 5); packets with unspecified items are compared leniently in cif_container_get_value.',
      'runtime monitoring: lock-step reference-model checking of random API histories under ASan/UBSan',
      'DESIGN.md section 4, C04')

claim('C05', 'exploration',
      'Systematic: every failing kind of the statement x offending element first/middle/last x list length 1-5 x '
      '{no transaction, inside an open iterator then closed, then aborted} on fresh fixtures, each followed by probe '
      'calls; random: every failing call of C04-style histories.  After each failing call the full dump must equal the '
      'unchanged model, no transaction may be left open (or the enclosing one lost), and the probes must behave as if '
      'the failed call had never been made.',
      'Inside an open iterator any error code is accepted from the failing call; only unchangedness, transaction '
      'state and the probes are judged there.',
      'runtime monitoring: unchanged-on-failure and transaction-state monitors over systematic and random failing calls',
      'DESIGN.md section 4, C05')

claim('C06', 'exploration',
      'Bounded-exhaustive iterator scripts: 11 loop shapes (1-3 packets x 1-3 items, the scalar loop, partially filled '
      'packets) x every script over {next fresh / next into a caller packet with extra items / next NULL sink / update '
      'subset / update with foreign item / update empty / remove} up to length 6 (thorough: the whole space; quick: all '
      'scripts up to length 3 plus a seeded sample of the length-5 space) x {close, abort}, each on a fresh CIF, judged '
      'by a state-machine model with unique cell values, while a second block and a save frame holding loops of the same '
      'item names must stay untouched; plus empty-loop, destroyed-loop, remove-all, two-loop and refused-request cases, and '
      '72 scripts on two-packet loops of 330 - 1400 items (the internal name tables grow several times).',
      'Packet order is unspecified: a NULL-sink next is assumed to consume packets in storage order.  After '
      'CIF_FINISHED update/remove may be refused or act on the last delivered packet.',
      'runtime monitoring: bounded-exhaustive script enumeration against a state-machine oracle under ASan/UBSan',
      'DESIGN.md section 4, C06')

claim('C07', 'exploration',
      'Generated values (strings around the 256/512/4096-unit and 512-byte serialisation boundaries and up to 70 000 '
      'units, every number spelling, unknown / n.a., lists and tables to depth 8 (thorough 200) and width 300, awkward '
      'table keys) are stored through set_value (scalar and looped), add_item, add_packet, an iterator update and the '
      'parser (document written by the independent writer) and read back through get_value (fresh / into an existing '
      'object), packet iteration and the cif_walk item callback; kind, text, quoted flag, derived doubles (bit patterns), '
      'order, key spelling and members are compared at every depth, before and after the source object is overwritten '
      'and freed.',
      'Held on the seeded values generated; depth bounded by the C stack.  Correctness of the derived doubles is C10\'s.',
      'runtime monitoring: differential store/read-back over five storage paths and three observers under ASan/UBSan with ledger',
      'DESIGN.md section 4, C07')

claim('C01', 'exploration',
      'Documents written by an independent, specification-derived CIF writer from an abstract content (blocks, one level '
      'of save frames, scalars, loops, nested lists / tables, all permitted Unicode classes) in randomly drawn layouts '
      '(white space / comment runs, keyword case, every admissible delimiter per value, folded / prefixed text fields, '
      'tokens pushed to the line-length limit, version comments padded with blanks to 2020-2048 characters with and without a signature); enumerated families cover every ordered pair of 16 presentations x 4 '
      'contexts x separators, every ASCII character at every lexical position (CIF 2.0 and 1.1) and text-field protocol '
      'corner texts; 270 kB documents whose leading comment slides short items of every presentation across the offsets '
      'at which the scan buffer fills up and is compacted.  The parse must report no error, return CIF_OK and dump to '
      'exactly the abstract content.',
      'Held on the seeded documents; trusts the writer\'s reading of the grammar (cross-validated by thousands of '
      'agreeing parses).  Lines <= 2048, one level of save frames, nesting bounded by the generator.',
      'runtime monitoring: generator-as-oracle differential parsing under ASan/UBSan',
      'DESIGN.md section 4, C01')

claim('C08', 'exploration',
      'Metamorphic: 3 (thorough 40) base documents rich in multi-line values, 3- and 4-byte characters and planted '
      'defects are parsed with LF terminators and no padding; every transform - CR LF / CR / per-line mixtures, comment '
      'padding of every byte length 0..4095 after the first line (every alignment against the 4096-byte read buffer, '
      'for LF and CR LF), UTF-16 input at 128 alignments, tokens of 131 190 .. 300 000 units (text field, triple-quoted, '
      'comment, unquoted, 100 000 CR LF pairs), leading CR / CR LF / BOM+CR, CR LF pairs straddling a fill boundary, 270 kB '
      'documents with ordinary tokens at the scan-buffer compaction points and ending inside a compaction window, 280 k-unit '
      'documents of supplementary-plane characters in a text field, in comments and in quoted / unquoted / triple-quoted '
      'values, list elements, table keys and data names (a surrogate pair is split wherever the buffer runs full) - must '
      'yield the same dump and the same (error code, line) sequence, lines shifted by the padding.',
      'Held on the enumerated alignments and seeded base documents.  The reference parse of the well-formed part is '
      'itself tied to the generator\'s content.',
      'runtime monitoring: metamorphic alignment / terminator sweep under ASan/UBSan',
      'DESIGN.md section 4, C08')

claim('C11', 'exploration',
      'Exhaustive product of {no magic, 1.1, 1.0, 2.0, 2.0 on line 2, 2.0 after a blank} x {BOM, none} x prefer_cif2 in '
      '{-5,-1,0,1,19,20,99} x {UTF-8, UTF-16LE/BE, UTF-32LE/BE, six named 8-bit defaults (ISO-8859-1, windows-1252, '
      'ISO-8859-15, KOI8-R, US-ASCII, macintosh), signature-less UTF-16 default} x '
      'force_default_encoding x {ASCII, non-ASCII} probe (3696 cells) plus seven BOM-position cases, plus a 12 kB CIF 2.0 '
      'document of 1- to 4-byte characters served in the five signature-recognised encodings at 19 offsets against the '
      'reader\'s byte buffer (same content, no error but the prescribed CIF_WRONG_ENCODING).  The dialect is '
      'observed with an error-free probe that reads differently (line-folded text field); dialect, decoded content, '
      'presence / absence of CIF_WRONG_ENCODING and absence of other errors are judged by a decision function '
      'transcribed from the statement.',
      'Cells in which the documented decision picks an encoding the bytes are not in (2100 of 3696, e.g. signature-less '
      'UTF-16, forced default over UTF-16 bytes) are executed for memory safety only and reported as undetermined.',
      'runtime monitoring: exhaustive configuration-matrix enumeration against a transcribed decision function',
      'DESIGN.md section 4, C11')

claim('C14', 'exploration',
      'For 16 (thorough 64) fixture CIFs with nested save frames, scalar and multi-packet loops (up to ~190 callbacks): '
      'the all-continue walk is reconstructed into a tree and must equal the dump obtained without cif_walk (every element '
      'once, parents first, frames before loops, start before end, items with name and value); then every single '
      'non-continue answer {SKIP_CURRENT, SKIP_SIBLINGS, END, CIF_CLIENT_ERROR, 77} at every callback (exhaustive), pairs '
      '(thorough) and random dense programs are walked and judged by an abstract interpreter of the documented semantics '
      '(must / may / must-not), together with the return value, handle queries inside callbacks, the ledger and the '
      'transaction state; the programs are repeated with handler structures some of whose members are NULL.',
      'The reference element order is that of the all-continue walk of the same unchanged CIF.  End callbacks of skipped '
      'elements / of parents after SKIP_SIBLINGS are "may".',
      'runtime monitoring: trace-specification checking of callback logs, exhaustive single-answer handler programs',
      'DESIGN.md section 4, C14')

claim('C15', 'exploration',
      'For generated well-formed documents the expected handler-callback sequence is derived from the abstract document; '
      'all-continue parses (storing and syntax-only) must deliver exactly it with correct payloads, store exactly the '
      'document, report every data name in order, one keyword callback per loop_, white-space runs holding only white '
      'space / comments at monotone positions, and both modes must give identical handler and syntax sequences.  Every '
      'single non-continue answer at every callback (exhaustive), pairs (thorough) and random programs are then parsed in '
      'both modes and judged by an abstract interpreter: must / may / must-not callbacks, return value, and stored / '
      'absent / don\'t-care content; repeated with NULL handler members, and with a loop_start handler that uses the '
      'loop handle it is given (categories).',
      'Documents are the seeded ones generated (96 quick / 2000 thorough).  "may" / don\'t-care classes as listed in '
      'DESIGN.md section 5, item 1; the text passed to the keyword callback is not judged.',
      'runtime monitoring: trace-specification checking of parse callbacks derived from the abstract document',
      'DESIGN.md section 4, C15')

claim('C12', 'exploration',
      'A fixed line-oriented host document (two blocks, scalars, loop, list, table, save frame with text field) x ~60 '
      'defect plantings per position (missing value, duplicate names in every spelling and header position incl. within '
      'one header, duplicate / invalid block and frame codes, data before the first block, partial packets, empty loop '
      'header, loop without values, unterminated quotes / text / triple quotes, missing white space, stray and missing '
      'delimiters, missing / null / unquoted / text-block keys, reserved words in mixed case, unterminated / unexpected / '
      'disallowed / nested save frames, over-length lines in every context and at end of input, strings cut off by the end '
      'of the input, key colons inside lists, disallowed characters, table-entry defects repeated with a longer value token (same code sequence), '
      'unexpected and invalid bare values) x 8 positions x LF / CR LF (/ CR), plus 2047/2048-character controls: first '
      'reported code, its line interval, the return value after accepting every error, and the full recovered content '
      'are judged against a table written from the error-recovery documentation.',
      'One host shape; later (cascaded) errors are not judged; an accepted empty loop may be pruned or kept; a disallowed '
      'character may be kept or replaced.',
      'runtime monitoring: defect planting with a documentation-derived recovery oracle',
      'DESIGN.md section 4, C12')

claim('C02', 'exploration',
      'CIFs built through the API from seeded abstract content (blocks, nested frames, scalars, loops with categories, '
      'lists / tables to depth 2) whose strings are boundary-biased - lengths 2038..2052 and 4090..4100, lines of '
      '2046..2049, both quote kinds, triple-quote and text-terminator look-alikes, fold / prefix marker look-alikes, '
      'trailing blanks and backslashes, semicolon runs, supplementary characters at fold points, 2000..2047-character '
      'names and codes, and strings concatenated from the fragments the choice of delimiter and text-field protocol depends '
      'on, and keyword look-alikes in every letter case for which the bare form is requested - are written with cif_write, byte-checked (version comment, UTF-8, every line <= 2048 code '
      'points) and re-parsed; the re-parse must report nothing and be equivalent to the original under exactly the '
      'tolerances of the statement.  Refusal is accepted only as CIF_DISALLOWED_VALUE for a table key without a quoted form.',
      'Equivalence ignores loop categories and compares names by normal form.  A key is only required to be writable when '
      'it also fits the line measured in UTF-16 code units.',
      'runtime monitoring: write / re-parse round-trip differential with byte-level output monitors under ASan/UBSan',
      'DESIGN.md section 4, C02')

claim('C13', 'exploration',
      'As C02 with cif_version = 1 over the CIF 1.1 character set; every fourth CIF carries exactly one planted '
      'inexpressible element (list, table, newline-semicolon string, non-ASCII / DEL / VT character in a value, name or '
      'code).  The outcome class is judged against an independent expressibility rule (success on a poisoned CIF unless '
      'the output round-trips anyway, DISALLOWED_VALUE / DISALLOWED_CHAR without the matching poison, any other code); '
      'successful output must start with the 1.1 comment, hold only CIF 1.1 characters in lines <= 2048 and re-parse '
      'as CIF 1.1 with folding and prefix decoding to an equivalent CIF.',
      'Same equivalence relation as C02.',
      'runtime monitoring: outcome classification plus round-trip differential for CIF 1.1 output',
      'DESIGN.md section 4, C13')

claim('C09', 'exploration',
      'cif_normalize is compared with NFC(fold(NFD(x))) computed through independent ICU entry points (unorm2_normalize '
      'singletons, ucasemap_utf8FoldCase) for every Unicode scalar value (exhaustive, 1 112 063 one-character strings), '
      '100 000 (thorough 2 000 000) base+mark / mark+mark / special-folding strings in NFC, NFD and as given '
      '(idempotence, equal results for canonically equivalent spellings, srclen prefixes); 10 000 (thorough 200 000) '
      'create / lookup / duplicate triples on blocks, frames, items, packet items, loop packets and packet-iterator updates under spelling pairs whose '
      'equivalence the oracle decides; table keys (NFC only, case kept, last spelling enumerated); and a validity sweep '
      'of every disallowed code-point class at first / middle / last position plus the 2048 / 2043 length boundaries.',
      'ICU is trusted (Unicode 15, one library reached through two different APIs).  C1 controls in names are not judged.',
      'runtime monitoring: exhaustive differential against independent ICU entry points plus API-level matching relation',
      'DESIGN.md section 4, C09')

claim('C10', 'exploration',
      'Acceptance: every string of length <= 5 (thorough 6) over {+ - . 0 1 9 e E ( ) x} plus random longer ones is '
      'offered to cif_value_parse_numb on a value holding a sentinel - accepted exactly when the numeric grammar matches, '
      'otherwise CIF_INVALID_NUMBER with the sentinel intact.  Text to double: 60 000 (thorough 1 500 000) boundary-biased '
      'numbers (exact ties between adjacent doubles and their neighbours, powers of two, 10^9k bignum boundaries, 1-600 '
      'digit mantissas, exponents -330..+330, su of 1-12 digits, astronomically large exponents for UB only) - '
      'get_number / get_su must equal the correctly rounded double of the exact rational.  Double to text: 60 000 '
      '(thorough 1 500 000) init_numb / autoinit_numb calls over the whole exponent range of double including subnormals, '
      'scales -300..1074, su rules 2..199 and leading-zero limits 0..400 - digits, scale, uncertainty and notation must '
      'equal the exact-rational rendering (round half even), and the text must parse back to the doubles its digits denote.',
      'Only zero or normal-range magnitudes are judged for text to double; the sign of zero is not judged.  A su that '
      'rounds to zero may be omitted or written (0).  For su = 0, integers of more than 15 digits may be rendered to 15 '
      'digits (correctly rounded).  Notation is not judged where val is within 1e-13 of a power of ten or rounding moved '
      'the leading digit across the leading-zero limit.',
      'runtime monitoring: exhaustive acceptance sweep and differential against exact rational arithmetic under ASan/UBSan',
      'DESIGN.md section 4, C10')

claim('C18', 'exploration',
      'Every string of length <= 4 (thorough 5) over the 19 syntactically significant characters (both quotes, ; # $ _ '
      '[ ] { } blank tab LF CR backslash ? . a 1) x allow_unquoted x allow_triple_quoted, at limit 2048 and at a small '
      'limit, plus long strings (line lengths 2038..2060, semicolon runs, trailing blanks, both triple delimiters, fold / '
      'prefix look-alikes, supplementary characters) and the reserved-word family (every case mask, truncation, '
      'insertion, substitution, look-alike letter): cif_analyze_string statistics against an independent recount; the '
      'recommended delimiter must be permitted, fit the limit and be admissible, and a simple form must be chosen when '
      'one fits with eight characters to spare; the string presented with that delimiter (after a blank, at column 1 or '
      'flush against column 2048; text fields folded / prefixed as the flags direct) is parsed back in probe documents '
      'and must be read as exactly that string without error.  set_quoted / try_quoted(NOT_QUOTED) outcome classes and '
      'cif_is_reserved_string answers are compared with the CIF 2.0 rule, and everything they let through is read back '
      'whitespace-delimited.',
      'Strings containing CR are judged for statistics and delimiter but not read back (line terminators are normalised '
      'by the parser).  Vertical tab is not judged as trailing blank.  has_reserved_start is judged only through the '
      'read-back of the text field it directs.',
      'runtime monitoring: exhaustive short-string sweep with recount oracle and parser read-back differential under ASan/UBSan',
      'DESIGN.md section 4, C18')

claim('C03', 'exploration',
      'Inputs from the independent writer (CIF 2.0 / 1.1 layouts), the repository test data, defect-rich tails and token '
      'soup, encoded as UTF-8 / UTF-16 / UTF-32 / Latin-1 with or without BOM and damaged by structure-aware mutation '
      '(bit flips, control bytes, malformed UTF-8, surrogates, BOMs, span deletion / duplication / swap, truncation, '
      'token splicing in other encodings, runs of up to a megabyte, line-terminator rewrites), each under a random option '
      'vector (prefer_cif2, max_frame_depth, fold / prefix modifiers, extra whitespace / EOL sets, default encoding incl. '
      'an unsupported one, forcing, handler present or not, target new / absent / pre-populated / the CIF of an earlier '
      'parse of the same bytes) in a family of runs on '
      'the same bytes: all errors accepted (reference), default handler (must return the first reported code), n-th '
      'error rejected with a caller code (must see exactly the first n errors and return that code), another read-chunk '
      'size with the handler toggled (same errors), k-th read failing (defined non-zero result).  Every run: watchdog, '
      'ASan/UBSan, result in the contract set, no failure without a reported error, line >= 1 and readable text in '
      'every callback; afterwards the CIF is dumped, walked, written, modified and destroyed with the ledger balanced.',
      'A loop left without packets makes cif_walk / cif_write return CIF_EMPTY_LOOP: accepted when the dump shows such a '
      'loop.  Values nested more than 200 levels are not read back by the harness.  Known finding: unbounded recursion on '
      'nesting depth (stack exhaustion).',
      'runtime monitoring: mutation-based hostile workload with twin-run differential oracles under ASan/UBSan and a watchdog',
      'DESIGN.md section 4, C03')

claim('C17', 'fault_enumeration',
      'For every public function that can allocate (161 operations over 68 functions, 27 of them repeated inside an open '
      'packet iterator on another loop, two at the insertion where a hash table grows: each argument shape of the CIF, '
      'container, loop, packet-iterator, packet, value, parse, write and utility calls) the single call is executed on a '
      'fresh deterministic fixture with the k-th allocation failing, for every k up to the count of an unfaulted twin '
      '(quick: the first 60 and 10 evenly spaced later ones), separately for the library / hash-table allocator '
      '(link-time wrapped malloc family) and the storage engine (SQLITE_CONFIG_MALLOC).  Judged per injection: no crash or '
      'sanitizer report; result CIF_MEMORY_ERROR / CIF_ERROR / NULL, or the normal result with the normal outputs and '
      'state; after a failure the managed CIF equals the call-skipped twin, caller-owned values and packets are '
      'well-formed and releasable, no transaction is left open, the same call repeated without fault gives the normal '
      'result, outputs and final state; teardown leaves the allocation ledger, handle counters and SQLite block count '
      'balanced.  A crash inside an operation resumes the enumeration behind the crashing k.',
      'ICU allocations are not faulted.  A failed call may alter (not invalidate) a value object the caller owns.  '
      'cif_parse into an existing CIF may leave partial content.  Known findings: ignored ROLLBACK results and the '
      'first retry after a failed statement step (storage-engine layer).',
      'runtime monitoring: exhaustive single-fault injection at the allocator boundary with unfaulted twin runs as oracle, under ASan/UBSan and an allocation ledger',
      'DESIGN.md section 4, C17')

claim('C16', 'exploration',
      'ASan, UBSan, the allocation ledger (every malloc / calloc / realloc / strdup / free of the library and its hash '
      'tables, link-time wrapped), SQLite block and handle counters (ICU converters and files, SQLite connections and '
      'statements) and the numeric-locale / rounding-mode probes after every library call are active in every check of '
      'this suite and reported under that check.  The C16 check proper replays slices of seventeen other workloads (C01-C15, '
      'C18, C19) and a workload of its own - every character whose normal form differs in length from the character, '
      'behind 0-11 ASCII characters, through every normalising entry point - as sessions ending in full teardown under each '
      'of the four rounding modes (set around every outermost call; must be unchanged after it), judging only instrument reports; '
      'and runs 24 (thorough 300) hostile inputs through the uninstrumented parse runner (parse x3, walk, write, modify, '
      'destroy) under valgrind memcheck with definite / indirect leaks as errors.',
      'Functional verdicts of the replayed workloads are ignored in C16 (their oracles assume the default rounding mode).  '
      'A clean run is not memory safety: red zones miss intra-object overflows and stale-but-mapped reads; memcheck covers '
      'parser and writer only.',
      'runtime monitoring: sanitizers plus allocation ledger, handle counters and global-state probes over replayed workloads; valgrind memcheck sample',
      'DESIGN.md section 4, C16')
