# Per-property claims; executed by gen_manifest.py (claim(...) and NOT_APPLICABLE are provided by it).

claim('C20', 'exploration',
      'Exhaustive over the finite set of result codes the working tree\'s cif.h defines: each code must index '
      'inside cif_errlist and its message must be non-empty, distinct and match the keyword pattern written from '
      'that code\'s documentation; the table is read from the real, ASan-instrumented library.',
      'Trusts the keyword table (vp/checks/C20.py) as the reading of the documentation; new codes fall back to a '
      'pattern derived from the macro name.',
      'runtime monitoring: exhaustive table read-out of the instrumented library judged by a documentation-derived oracle',
      'DESIGN.md section 4, C20')
