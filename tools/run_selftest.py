#!/usr/bin/env python3
"""Runs every hand-written mutant of selftest/mutants/ against the check named by its file name (quick tier) and
records the verdicts in selftest/results.json.  tools/run_selftest.py [name-prefix ...]"""
import json
import os
import re
import subprocess
import sys

VERIF = os.path.dirname(os.path.dirname(os.path.abspath(__file__)))


def main():
    d = os.path.join(VERIF, 'selftest', 'mutants')
    rp = os.path.join(VERIF, 'selftest', 'results.json')
    res = json.load(open(rp)) if os.path.exists(rp) else {}
    want = sys.argv[1:]
    for n in sorted(os.listdir(d)):
        if not n.endswith('.diff') or (want and not any(n.startswith(w) for w in want)):
            continue
        check = n.split('-')[0]
        out = subprocess.run([sys.executable, os.path.join(VERIF, 'tools', 'mutant.py'), os.path.join(d, n), check],
                             stdout=subprocess.PIPE, stderr=subprocess.STDOUT).stdout.decode(errors='replace')
        m = re.search(r'^(C\d\d) (DETECTED|MISSED|INCONCLUSIVE) ?(.*)$', out, re.M)
        verdict, keys = (m.group(2), m.group(3)) if m else ('PATCH-FAILED' if 'PATCH-FAILED' in out else 'ERROR', out[-200:])
        res[n[:-5]] = dict(check=check, verdict=verdict, keys=keys[:300])
        print(n, verdict, keys[:120], flush=True)
        json.dump(res, open(rp, 'w'), indent=1, sort_keys=True)


if __name__ == '__main__':
    main()
