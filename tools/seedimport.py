#!/usr/bin/env python3
"""tools/seedimport.py <id> [--from DIR] <Cxx> [<Cyy> ...]

Imports a seeded breaking change written by a sub-agent (default source /tmp/wt_<id>/SEED_OUT) into
/verif/seeded/<id>/, confirms it (test suite of the patched copy, the demonstration built against the patched
library) and runs the named checks against it through tools/mutant.py; the outcome is recorded in meta.json."""
import json
import os
import re
import shutil
import subprocess
import sys

VERIF = os.path.dirname(os.path.dirname(os.path.abspath(__file__)))


def main():
    args = sys.argv[1:]
    sid = args.pop(0)
    src = '/tmp/wt_%s/SEED_OUT' % sid.split('-')[0]
    if args and args[0] == '--from':
        src = args[1]
        del args[:2]
    checks = args
    dest = os.path.join(VERIF, 'seeded', sid)
    os.makedirs(dest, exist_ok=True)
    for n in os.listdir(src) if os.path.abspath(src) != os.path.abspath(dest) else []:
        p = os.path.join(src, n)
        if os.path.isfile(p) and os.path.getsize(p) < 200000 and not os.access(p, os.X_OK) or n.endswith('.sh'):
            shutil.copy(p, dest)
    demo = os.path.join(dest, 'demo.c')
    cmd = [sys.executable, os.path.join(VERIF, 'tools', 'mutant.py'), '--tests']
    if os.path.exists(demo):
        cmd += ['--demo', demo]
    cmd += [os.path.join(dest, 'patch.diff')] + checks
    out = subprocess.run(cmd, stdout=subprocess.PIPE, stderr=subprocess.STDOUT).stdout.decode(errors='replace')
    print(out[-3000:])
    meta_p = os.path.join(dest, 'meta.json')
    try:
        meta = json.load(open(meta_p))
    except Exception:
        meta = {}
    ver = dict(suite=None, demo=None, checks={})
    for line in out.splitlines():
        if line.startswith('suite:'):
            ver['suite'] = line[6:].strip()
        elif line.startswith('demo:'):
            ver['demo'] = line[5:].strip()[:300]
        else:
            m = re.match(r'^(C\d\d) (DETECTED|MISSED|INCONCLUSIVE) ?(.*)$', line)
            if m:
                ver['checks'][m.group(1)] = dict(verdict=m.group(2), keys=m.group(3)[:400])
    meta['verified_by_verif'] = ver
    json.dump(meta, open(meta_p, 'w'), indent=1)


if __name__ == '__main__':
    main()
