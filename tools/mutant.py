#!/usr/bin/env python3
"""Monitor validation: applies a patch to a scratch copy of the repository (outside /repo and /verif), optionally
runs the repository's own test suite there, and runs the named checks against the copy (CIF_REPO).

  tools/mutant.py [--tests] [--demo demo.c] [--tier quick] <patch.diff> <Cxx> [<Cyy> ...]

--demo builds the given demonstration program against the patched copy's library (implies a full build) and prints
its exit status and last lines.

Prints one line per check: DETECTED (exit 1 + VIOLATION), MISSED (exit 0) or INCONCLUSIVE.  The scratch copy is
removed afterwards.  Evidence files are not touched (VP_NO_EVIDENCE=1)."""
import os
import shutil
import subprocess
import sys
import tempfile

VERIF = os.path.dirname(os.path.dirname(os.path.abspath(__file__)))


def main():
    args = sys.argv[1:]
    tests = False
    demo = None
    tier = 'quick'
    while args and args[0].startswith('--'):
        if args[0] == '--tests':
            tests = True
            args.pop(0)
        elif args[0] == '--demo':
            demo = os.path.abspath(args[1])
            del args[:2]
        elif args[0] == '--tier':
            tier = args[1]
            del args[:2]
        else:
            break
    patch, checks = os.path.abspath(args[0]), args[1:]
    scratch = tempfile.mkdtemp(prefix='cifmut.', dir='/var/tmp')
    repo = os.path.join(scratch, 'repo')
    try:
        if tests or demo:
            # a full copy is needed to run the suite (in-tree autotools build)
            subprocess.run(['rsync', '-a', '--exclude', '.git', '/repo/', repo + '/'], check=True)
        else:
            os.makedirs(repo)
            for d in ('src', 'uthash', 'misc'):
                shutil.copytree(os.path.join('/repo', d), os.path.join(repo, d),
                                ignore=shutil.ignore_patterns('*.o', '*.lo', '.libs', 'tests', '*.log', '*.trs'))
            shutil.copy('/repo/config.h', repo)
        r = subprocess.run(['patch', '-p1', '-s', '-d', repo, '-i', patch])
        if r.returncode != 0:
            print('PATCH-FAILED', patch)
            return 2
        if tests:
            r = subprocess.run('cd %s && make -k check 2>&1 | grep -E "^# (PASS|FAIL|ERROR)" | tr "\\n" " "' % repo,
                               shell=True, stdout=subprocess.PIPE)
            print('suite:', r.stdout.decode().strip())
        if demo:
            if not tests:
                subprocess.run('cd %s && make >/dev/null 2>&1' % repo, shell=True)
            exe = os.path.join(scratch, 'demo')
            r = subprocess.run(['gcc', '-O1', '-I', os.path.join(repo, 'src'), demo, '-o', exe, '-L', os.path.join(repo, 'src', '.libs'),
                                '-lcif', '-licuio', '-licui18n', '-licuuc', '-lsqlite3', '-lm', '-Wl,-rpath,' + os.path.join(repo, 'src', '.libs')],
                               stdout=subprocess.PIPE, stderr=subprocess.STDOUT)
            if r.returncode != 0:
                print('demo: BUILD-FAILED', r.stdout.decode(errors='replace')[-400:])
            else:
                r = subprocess.run([exe], stdout=subprocess.PIPE, stderr=subprocess.STDOUT, cwd=scratch, timeout=600)
                print('demo: exit %d | %s' % (r.returncode, ' / '.join(r.stdout.decode(errors='replace').strip().splitlines()[-3:])[:400]))
        env = dict(os.environ, CIF_REPO=repo, VP_NO_EVIDENCE='1')
        rcs = {}
        for c in checks:
            r = subprocess.run([os.path.join(VERIF, 'check'), c, '--tier', tier], env=env, stdout=subprocess.PIPE,
                               stderr=subprocess.STDOUT, cwd=VERIF)
            out = r.stdout.decode(errors='replace')
            keys = [l.strip() for l in out.splitlines() if l.strip().startswith('key=')]
            verdict = {0: 'MISSED', 1: 'DETECTED'}.get(r.returncode, 'INCONCLUSIVE')
            print('%s %s %s' % (c, verdict, '; '.join(k[:110] for k in keys[:4])))
            if verdict == 'INCONCLUSIVE':
                print(out[-1500:])
            rcs[c] = r.returncode
        return 0
    finally:
        shutil.rmtree(scratch, ignore_errors=True)


if __name__ == '__main__':
    sys.exit(main())
