#!/usr/bin/env python3
"""Rewrites Appendix B of DESIGN.md (between its markers) from seeded/*/meta.json and selftest/results.json."""
import json
import os
import re

VERIF = os.path.dirname(os.path.dirname(os.path.abspath(__file__)))
BEGIN, END = '<!-- APPENDIX-B:BEGIN -->', '<!-- APPENDIX-B:END -->'


def esc(s):
    return str(s).replace('|', '\\|').replace('\n', ' ')


def main():
    lines = [BEGIN, '',
             '### B.1 Changes written by independent sub-agents (`seeded/<id>/`)', '',
             'Each sub-agent saw only the property text and a private worktree of the repository; every change compiles,',
             'passes the unedited suite (74 / 74, re-run by `tools/mutant.py --tests`) and is demonstrated by a program that',
             'was rebuilt and re-run against the patched copy (`--demo`).  Quick tiers, default seed.', '',
             '| id | change | needs | verdicts |', '|---|---|---|---|']
    sd = os.path.join(VERIF, 'seeded')
    for sid in sorted(os.listdir(sd)) if os.path.isdir(sd) else []:
        mp = os.path.join(sd, sid, 'meta.json')
        if not os.path.exists(mp):
            continue
        m = json.load(open(mp))
        v = m.get('verified_by_verif', {})
        verd = '; '.join('%s %s' % (c, d['verdict']) for c, d in sorted(v.get('checks', {}).items()))
        if m.get('triage'):
            verd += ' — ' + esc(m['triage'])
        lines.append('| %s | %s (`%s`) | %s | %s |' % (sid, esc(m.get('summary', ''))[:260], esc(m.get('file', '')), esc(m.get('manifests_when', ''))[:200], verd))
    rp = os.path.join(VERIF, 'selftest', 'results.json')
    if os.path.exists(rp):
        res = json.load(open(rp))
        lines += ['', '### B.2 Hand-written changes (`selftest/mutants/`)', '',
                  'Applied to a scratch copy with `tools/mutant.py`; the check named by the file name is run in its quick tier.', '',
                  '| change | verdict | first keys |', '|---|---|---|']
        for name in sorted(res):
            r = res[name]
            lines.append('| %s | %s | %s |' % (name, r.get('verdict'), esc(r.get('keys', ''))[:160]))
    lines += ['', END]
    p = os.path.join(VERIF, 'DESIGN.md')
    s = open(p).read()
    block = '\n'.join(lines)
    if BEGIN in s:
        s = re.sub(re.escape(BEGIN) + r'.*?' + re.escape(END), lambda _: block, s, flags=re.S)
    else:
        s = s.rstrip('\n') + '\n\n---------------------------------------------------------------------------------------\n\n## Appendix B — which checks catch which seeded changes\n\n' + block + '\n'
    open(p, 'w').write(s)


if __name__ == '__main__':
    main()
