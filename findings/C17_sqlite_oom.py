"""Witness for the known findings of C17 in the storage-engine layer (run: ./tools/pyasan findings/C17_sqlite_oom.py).

1. transaction-left-open: cif_loop_get_names / cif_loop_get_packets / cif_container_get_all_loops / cif_walk end their
   read-only work with a ROLLBACK whose result is ignored; when the one failing allocation hits that ROLLBACK the call
   still returns CIF_OK, the transaction stays open and every later call that begins a transaction returns CIF_ERROR.
2. retry: after cif_container_set_value failed with CIF_MEMORY_ERROR inside a statement step, the same call repeated
   with memory available returns CIF_ERROR once ("cannot rollback - no transaction is active": resetting the failed
   statement at the start of the retry rolls back the retry's own transaction); only the second repetition succeeds."""
import sys
sys.path.insert(0, '/verif')
from vp import lib                      # noqa: E402
from vp.checks import C17               # noqa: E402

L = lib.get()


def scenario(name):
    opfn = [o for o in C17.OPS if o[0] == name][0][1]
    return C17.Scenario(L, opfn)        # (takes a snapshot first, which warms the statement caches as in the check)


sc = scenario('cif_loop_get_names')
C17.arm(L, 'sqlite', 11)
rc = sc.target()
print('cif_loop_get_names with SQLite allocation 11 failing ->', rc, '; delivered:', C17.disarm(L, 'sqlite')[1],
      '; transaction open afterwards:', bool(L.in_transaction(sc.fx.cif)))
rc2, it = L.loop_get_packets(sc.fx.loop)
print('cif_loop_get_packets afterwards ->', rc2, '(CIF_ERROR = 2)')

sc = scenario('cif_container_set_value:replace')
C17.arm(L, 'sqlite', 11)
rc = sc.target()
print('cif_container_set_value with SQLite allocation 11 failing ->', rc, '; delivered:', C17.disarm(L, 'sqlite')[1])
print('repeated ->', sc.target(), L.vp_db_errmsg(sc.fx.cif))
print('repeated again ->', sc.target())

# 3. iterator-not-resumable / abort
for name in ('cif_pktitr_next_packet:new', 'cif_pktitr_abort'):
    for k in range(1, 40):
        sc = scenario(name)
        C17.arm(L, 'sqlite', k)
        rc = sc.target()
        delivered = C17.disarm(L, 'sqlite')[1]
        if delivered and rc != 0 and name.endswith('new'):
            rc2 = sc.target()
            if rc2 != 0:
                print('%s with SQLite allocation %d failing -> %d; repeated -> %d (the iterator is stale)' % (name, k, rc, rc2))
                break
        if delivered and name.endswith('abort') and L.in_transaction(sc.fx.cif):
            print('%s with SQLite allocation %d failing -> %d; transaction still open' % (name, k, rc))
            break
