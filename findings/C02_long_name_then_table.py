"""Witness for the known finding  write:rc:108:name-over-2000-chars  (C02).

Run with:  ./tools/pyasan findings/C02_long_name_then_table.py
A scalar item whose data name has 2031 characters (valid: the limit is 2048) and whose value is the table
{'abcdefgh':00088.0}: cif_write() starts the table on the name's line, writes the key, and then cannot place the
value after the colon (it never wraps there), so it fails with CIF_OVERLENGTH_LINE (108) instead of starting the table
on a fresh line.  Needs a data name within about 20 characters of the line-length limit."""
import sys
sys.path.insert(0, '/verif')
from vp import lib, cifbuild as B
L = lib.get()
doc = [{'code': 'b', 'entries': [('item', '_' + 'n' * 2030, ('table', (('abcdefgh', ('numb', '00088.0', False)),)))]}]
cif = B.build_cif(L, doc)
rc, data = L.write_bytes(cif)
L.destroy(cif)
print('cif_write ->', rc, '(expected 0)')
sys.exit(0 if rc == 108 else 1)
