"""Witness for the known findings  write:rc:108 / write:rc:2 / write:rc:62 + :name-over-2000-chars  (C02).

Run with:  ./tools/pyasan findings/C02_long_name_then_table.py
A scalar item whose data name has 2001-2031 characters (valid: the limit is 2048) and whose value is a table or a list
holding a table: cif_write() starts the composite value on the name's line and never moves to a fresh line inside it,
so whatever does not fit behind the name makes it fail - with CIF_OVERLENGTH_LINE (108) when the value after a key's
colon does not fit, with CIF_ERROR (2) or CIF_DISALLOWED_VALUE (62) when a table key itself does not fit - instead of
starting the table on a fresh line.  Needs a data name within about 50 characters of the line-length limit."""
import sys
sys.path.insert(0, '/verif')
from vp import lib, cifbuild as B
L = lib.get()
cases = [
    ('_' + 'n' * 2030, ('table', (('abcdefgh', ('numb', '00088.0', False)),)), 108),
    # (the two cases the thorough tier met, reduced only in the name)
    ('_' + 'n' * 2000, ('table', (("m(\t];;rhw;y\U00020000XY%{|@\u00b5\\2,\uac00+i5(\u4e2d\t'w^_&@5!Bmm", ('table', ())),)), None),
    ('_' + 'n' * 2030, ('list', (('table', (('\u200b%;', ('unk',)), ('\U00020000', ('numb', '969.600413859327e-2(4)', False)),
                                            ('\U0001d11e+', ('numb', '4297181.21E+100', False)), ('1\u00a0\u00c5', ('numb', '+5.', False)))),)), None),
]
bad = 0
for name, value, want in cases:
    cif = B.build_cif(L, [{'code': 'b', 'entries': [('item', name, value)]}])
    rc, data = L.write_bytes(cif)
    L.destroy(cif)
    print('name of %d characters, %s value: cif_write -> %d (expected 0)' % (len(name), value[0], rc))
    bad += rc != 0
sys.exit(0 if bad == len(cases) else 1)
