/* Witness for the known finding "unbounded recursion on nested lists / tables" (C03).
 *
 *   gcc -O2 -I/repo/src findings/C03_deep_nesting.c -o /var/tmp/deep -L/repo/src/.libs -lcif -Wl,-rpath,/repo/src/.libs
 *   /var/tmp/deep 100000        -> segmentation fault (stack exhausted by parse_value <-> parse_list recursion)
 *   /var/tmp/deep 100000 '{'    -> the same through parse_table
 *   /var/tmp/deep 20000         -> rc 0
 *
 * A 100 kB input consisting of opening brackets crashes cif_parse() of the uninstrumented library; under ASan the
 * larger frames exhaust the stack at a few thousand levels. */
#include <stdio.h>
#include <stdlib.h>
#include <string.h>
#include "cif.h"
int main(int argc, char **argv) {
    int depth = atoi(argv[1]);
    const char *open = argc > 2 ? argv[2] : "[";
    size_t n = 64 + depth;
    char *buf = malloc(n + 64);
    strcpy(buf, "#\\#CIF_2.0\ndata_d\n_l ");
    size_t p = strlen(buf);
    for (int i = 0; i < depth; i++) buf[p++] = open[0];
    buf[p++] = '\n'; buf[p] = 0;
    FILE *f = fmemopen(buf, p, "r");
    cif_tp *cif = NULL;
    struct cif_parse_opts_s *opts;
    cif_parse_options_create(&opts);
    opts->error_callback = cif_parse_error_ignore;
    int rc = cif_parse(f, opts, &cif);
    printf("depth %d rc %d\n", depth, rc);
    if (cif) cif_destroy(cif);
    return 0;
}
