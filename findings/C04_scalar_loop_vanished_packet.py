"""Witness for the known finding  model:cif_container_set_value:0:34:scalar-loop-after-vanished-packet  (C04).

Run with:  ./tools/pyasan findings/C04_scalar_loop_vanished_packet.py
History (all calls valid, all handles live):
  1. cif_container_set_value(b, "_a", v)            scalar loop {_a}, one packet
  2. iterator over the scalar loop: next, remove, close     scalar loop now has no packet (documented transient state)
  3. cif_container_set_value(b, "_b", v)            adds scalar _b; a packet is created that stores a value for _b only
  4. cif_container_remove_item(b, "_b")             the only stored value of that packet goes away with its item
  5. cif_container_set_value(b, "_c", v)            must add a new scalar; returns CIF_RESERVED_LOOP (34) instead
The loop's row counter (loop.last_row_num) still says one packet exists, so every later attempt to add a scalar or a
packet to that container's scalar loop is refused, although queries show the loop as holding no packet."""
import sys
sys.path.insert(0, '/verif')
from vp import lib
L = lib.get()
rc, cif = L.create()
rc, b = L.create_block(cif, 'blk')
v = L.make_value(('char', 'x', True))
print('1 set _a', L.set_value(b, '_a', v))
rc, lh = L.get_category_loop(b, '')
rc, it = L.loop_get_packets(lh)
print('2 next', L.it_next(it, 'null')[0], 'remove', L.it_remove(it), 'close', L.it_close(it))
print('3 set _b', L.set_value(b, '_b', v))
print('4 remove _b', L.remove_item(b, '_b'))
rc = L.set_value(b, '_c', v)
print('5 set _c ->', rc, '(expected 0)')
L.value_free(v); L.loop_free(lh); L.container_free(b); L.destroy(cif)
sys.exit(0 if rc == 34 else 1)
