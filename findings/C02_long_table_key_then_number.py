"""Witness for the known finding  write:rc:108:table-key-over-2000-chars  (C02).

Run with:  ./tools/pyasan findings/C02_long_table_key_then_number.py
Same root cause as findings/C02_long_name_then_table.py (the entry after a table key's colon is never given a fresh
line), reached through a long table key instead of a long data name: the value  {'k':1.50(3) 'q...q':1.50(3) 'z':1.50(3)}
with a key of 2010-2045 'q's.  When the number that follows a key's colon does not fit on the key's line, cif_write()
fails with CIF_OVERLENGTH_LINE (108) instead of starting the key on a fresh line, where key, colon and number fit
(a key of up to 2038 characters fits with its quotes, the colon and the 7 characters of the number).  With a string instead of the number
cif_write() succeeds."""
import sys
sys.path.insert(0, '/verif')
from vp import lib, cifbuild as B
L = lib.get()
bad = 0
cases = 0
for first in (('numb', '1.50(3)', False), ('char', 'abc', False)):
    for n in (2009, 2010, 2016, 2025, 2040):
        cif = B.build_cif(L, [{'code': 'b', 'entries': [('item', '_t', ('table', (('k', first), ('q' * n, first), ('z', first))))]}])
        rc, data = L.write_bytes(cif)
        L.destroy(cif)
        print('table key of %d characters, %s values: cif_write -> %d (expected 0)' % (n, first[0], rc))
        if first[0] == 'numb' and n != 2009:
            cases += 1
            bad += rc != 0
sys.exit(0 if bad == cases else 1)
